// SimKernel — an in-process model of the Linux pieces photon's socket layer and epoll engines talk to:
// stream sockets (AF_INET/AF_INET6/AF_UNIX), listen/accept/connect, eventfd, epoll (level, edge, one-shot, nested).
// The harness binary is linked with -Wl,--wrap=<sym> for every symbol in sim/wrap.syms, so the calls made by the
// repository's own objects land here; descriptors that are not simulated pass through to the real libc.
// All choices (latency, segmentation, partial transfers) come from the simulation PRNG; time is simulated time.
#pragma once
#include <stdint.h>
#include <stddef.h>

namespace simk {

struct Tuning {
    // per-connection values are drawn when the connection is created
    uint32_t sndbuf_choices[8] = {1, 3, 17, 256, 4096, 16384, 65536, 212992};
    uint32_t n_sndbuf = 8;
    uint32_t lat_min_us = 0, lat_max_us = 300;       // one-way delivery latency per segment
    uint32_t mss_choices[6] = {1, 7, 100, 1460, 9000, 65536};
    uint32_t n_mss = 6;
    uint32_t p_short_read = 100;                      // 1/1000: a read returns fewer bytes than are queued
    uint32_t p_short_write = 50;                      // 1/1000: a send accepts fewer bytes than fit
    uint32_t p_inet_connect_async = 800;              // 1/1000: TCP connect returns EINPROGRESS first
    bool wspace_threshold = true;                     // EPOLLOUT only once a third of the send buffer is free (as Linux does)
};
extern Tuning tuning;

struct Stats {
    uint64_t syscalls, eagain_read, eagain_write, short_reads, short_writes, epoll_waits, epoll_events, epoll_ctl_calls,
             segments, bytes, conns, resets, fins, max_batch;
};
extern Stats stats;

// fault injection by the harness
int inject_reset(int fd);            // the connection of this descriptor is reset (both directions), like an RST from the network
int pending_rx(int fd);              // bytes queued for reading
uint64_t rx_consumed(int fd);        // bytes the kernel has handed to readers of this descriptor so far
uint64_t tx_accepted(int fd);        // bytes the kernel has accepted from writers of this descriptor so far
uint32_t sndbuf_of(int fd);
bool was_reset(int fd);              // an RST has been received on this descriptor
bool is_sim_fd(int fd);
int open_fds();                      // simulated descriptors still open (leak check)
const char* describe(int fd);

}  // namespace simk

// SimKernel implementation; see kernel.h.  Compiled WITHOUT instrumentation: a simulated system call is one atomic step of
// the calling task (like a real system call is atomic with respect to user-space interleaving), except epoll_wait, which
// blocks on simulated time.
#include "kernel.h"
#include "simrt.h"
#include <sys/socket.h>
#include <sys/epoll.h>
#include <sys/eventfd.h>
#include <sys/un.h>
#include <sys/ioctl.h>
#include <sys/uio.h>
#include <netinet/in.h>
#include <fcntl.h>
#include <unistd.h>
#include <errno.h>
#include <stdarg.h>
#include <string.h>
#include <stdio.h>
#include <map>
#include <deque>
#include <vector>
#include <string>
#include <memory>
#include <algorithm>

extern "C" {
int __real_socket(int, int, int);
int __real_bind(int, const struct sockaddr*, socklen_t);
int __real_listen(int, int);
int __real_connect(int, const struct sockaddr*, socklen_t);
int __real_accept(int, struct sockaddr*, socklen_t*);
int __real_accept4(int, struct sockaddr*, socklen_t*, int);
ssize_t __real_read(int, void*, size_t);
ssize_t __real_write(int, const void*, size_t);
ssize_t __real_readv(int, const struct iovec*, int);
ssize_t __real_writev(int, const struct iovec*, int);
ssize_t __real_send(int, const void*, size_t, int);
ssize_t __real_recv(int, void*, size_t, int);
ssize_t __real_sendmsg(int, const struct msghdr*, int);
ssize_t __real_recvmsg(int, struct msghdr*, int);
ssize_t __real_sendfile(int, int, off_t*, size_t);
int __real_shutdown(int, int);
int __real_close(int);
int __real_setsockopt(int, int, int, const void*, socklen_t);
int __real_getsockopt(int, int, int, void*, socklen_t*);
int __real_getsockname(int, struct sockaddr*, socklen_t*);
int __real_getpeername(int, struct sockaddr*, socklen_t*);
int __real_fcntl(int, int, ...);
int __real_fcntl64(int, int, ...);
int __real_ioctl(int, unsigned long, ...);
int __real_epoll_create(int);
int __real_epoll_create1(int);
int __real_epoll_ctl(int, int, int, struct epoll_event*);
int __real_epoll_wait(int, struct epoll_event*, int, int);
int __real_eventfd(unsigned int, int);
int __real_eventfd_read(int, eventfd_t*);
int __real_eventfd_write(int, eventfd_t);
}

namespace simk {
Tuning tuning;
Stats stats;
}

namespace {
using namespace simk;

const int BASE = 100, MAXFD = 2048;
enum Kind { K_EPOLL = 1, K_EVENTFD, K_SOCK };
enum SState { S_NEW, S_LISTEN, S_CONNECTING, S_CONNECTED, S_DEAD };

struct Obj;
typedef std::shared_ptr<Obj> P;
std::vector<Obj*> all_socks;
struct Reg { uint32_t events = 0; epoll_data_t data; bool pending = false, disabled = false; uint64_t ready_seq = 0; };
struct Chunk { uint64_t at = 0; std::string data; bool fin = false, rst = false, closing = false; };

struct Obj {
    Kind kind; int fd = -1; int fl = 0;
    // epoll instance
    std::map<int, Reg> regs;
    // any pollable object: epoll instances that have a registration for this object's descriptor
    std::vector<Obj*> watchers;
    // eventfd
    uint64_t counter = 0;
    // socket
    int domain = 0; SState st = S_NEW;
    std::string local, remote;
    std::deque<P> acceptq; int backlog = 0;
    P peer;
    std::string rx; size_t rx_off = 0;
    std::deque<Chunk> inflight; uint64_t last_arrival = 0;
    uint64_t unacked = 0; uint32_t sndbuf = 65536, mss = 1460;
    bool rd_shut = false, wr_shut = false, fin_rcvd = false, peer_gone = false, rst_rcvd = false, nospace = false, rst_sent = false;
    int so_error = 0;
    uint64_t connect_at = 0; int connect_err = 0; P connect_listener;
    uint64_t n_consumed = 0, n_accepted = 0;
    size_t avail() const { return rx.size() - rx_off; }
    ~Obj() { if (kind == K_SOCK) all_socks.erase(std::remove(all_socks.begin(), all_socks.end(), this), all_socks.end()); }
};

P fdt[MAXFD];
uint64_t g_seq = 0, g_port = 40000;
char g_token;
std::map<std::string, Obj*> listeners;         // address key -> listening socket

inline uint64_t now() { return sim::now_ns(); }
inline bool simfd(int fd) { return fd >= BASE && fd < MAXFD && fdt[fd]; }
inline Obj* get(int fd) { return simfd(fd) ? fdt[fd].get() : nullptr; }

int alloc_fd(const P& o) {
    for (int fd = BASE; fd < MAXFD; fd++) if (!fdt[fd]) { fdt[fd] = o; o->fd = fd; return fd; }
    errno = EMFILE; return -1;
}

std::string addr_key(const struct sockaddr* a, socklen_t len) {
    char b[160];
    if (a->sa_family == AF_UNIX) { auto u = (const sockaddr_un*)a; snprintf(b, sizeof b, "unix:%.*s", (int)sizeof(u->sun_path), u->sun_path); }
    else if (a->sa_family == AF_INET) snprintf(b, sizeof b, "port:%u", ntohs(((const sockaddr_in*)a)->sin_port));
    else if (a->sa_family == AF_INET6) snprintf(b, sizeof b, "port:%u", ntohs(((const sockaddr_in6*)a)->sin6_port));
    else snprintf(b, sizeof b, "?");
    return b;
}

uint32_t poll_mask(Obj* o);
bool epoll_readable(Obj* e);

uint32_t wthresh(Obj* o) { return tuning.wspace_threshold ? std::max<uint32_t>(1, o->sndbuf / 3) : 1; }
bool writable(Obj* o) { uint64_t fr = o->sndbuf > o->unacked ? o->sndbuf - o->unacked : 0; return fr >= wthresh(o); }

uint32_t poll_mask(Obj* o) {
    switch (o->kind) {
    case K_EVENTFD: return (o->counter ? EPOLLIN : 0) | EPOLLOUT;
    case K_EPOLL: return epoll_readable(o) ? EPOLLIN : 0;
    case K_SOCK: {
        uint32_t m = 0;
        switch (o->st) {
        case S_NEW: return EPOLLOUT | EPOLLHUP;
        case S_LISTEN: return o->acceptq.empty() ? 0 : EPOLLIN;
        case S_CONNECTING: return 0;
        case S_DEAD: return EPOLLHUP;
        case S_CONNECTED:
            if (o->avail() || o->fin_rcvd || o->rd_shut) m |= EPOLLIN;
            if (o->fin_rcvd || o->rd_shut) m |= EPOLLRDHUP;
            if ((o->fin_rcvd || o->rd_shut) && o->wr_shut) m |= EPOLLHUP;
            if (o->so_error) m |= EPOLLERR | EPOLLIN | EPOLLOUT;
            if (o->rst_rcvd) m |= EPOLLHUP | EPOLLIN | EPOLLOUT | EPOLLRDHUP;
            if (o->wr_shut || writable(o)) m |= EPOLLOUT; else o->nospace = true;      // after shutdown(WR) a writer must get its EPIPE
            return m;
        }
    }
    }
    return 0;
}

uint32_t reg_ready(Obj* target, Reg& r) {
    if (r.disabled) return 0;
    uint32_t m = poll_mask(target) & (r.events | EPOLLERR | EPOLLHUP);
    if (!m) return 0;
    if ((r.events & EPOLLET) && !r.pending) return 0;
    return m;
}

bool epoll_readable(Obj* e) {
    for (auto& kv : e->regs) { Obj* t = get(kv.first); if (t && t != e && reg_ready(t, kv.second)) return true; }
    return false;
}

void edge(Obj* o, uint32_t mask, int depth = 0) {
    for (Obj* e : o->watchers) {
        auto it = e->regs.find(o->fd);
        if (it == e->regs.end()) continue;
        Reg& r = it->second;
        if (mask & (r.events | EPOLLERR | EPOLLHUP)) {
            r.pending = true;
            if (!r.ready_seq) r.ready_seq = ++g_seq;
            if (depth < 4) edge(e, EPOLLIN, depth + 1);
        }
    }
    sim::wake_all(&g_token);
}

uint64_t latency_ns() {
    uint32_t lo = tuning.lat_min_us, hi = std::max(tuning.lat_max_us, lo);
    return (uint64_t)(lo + (hi > lo ? sim::rnd(hi - lo + 1) : 0)) * 1000;
}

void queue_chunk(Obj* to, Chunk c) {
    uint64_t at = now() + latency_ns();
    if (at < to->last_arrival) at = to->last_arrival;      // one connection delivers in order
    to->last_arrival = at; c.at = at;
    to->inflight.push_back(std::move(c));
}

void acked(Obj* sender, uint64_t n) {
    if (!sender) return;
    sender->unacked = sender->unacked > n ? sender->unacked - n : 0;
    if (sender->nospace && writable(sender)) { sender->nospace = false; edge(sender, EPOLLOUT); }
}

void deliver(Obj* o, Chunk& c) {
    if (c.rst) {
        o->rst_rcvd = true; o->so_error = ECONNRESET; o->inflight.clear(); stats.resets++;
        edge(o, EPOLLIN | EPOLLOUT | EPOLLERR | EPOLLHUP | EPOLLRDHUP);
        return;
    }
    if (c.fin) {
        o->fin_rcvd = true; if (c.closing) o->peer_gone = true; stats.fins++;
        edge(o, EPOLLIN | EPOLLRDHUP | (o->wr_shut ? EPOLLHUP : 0));
        return;
    }
    if (o->rst_rcvd) { acked(o->peer.get(), c.data.size()); return; }      // a reset connection takes nothing more
    if (o->st == S_DEAD || o->rd_shut) {
        acked(o->peer.get(), c.data.size());
        if (o->st == S_DEAD && o->peer && !o->rst_sent) { o->rst_sent = true; Chunk r; r.rst = true; queue_chunk(o->peer.get(), r); }
        return;
    }
    o->rx.append(c.data);
    edge(o, EPOLLIN);
}

void complete_connect(Obj* o) {
    o->connect_at = 0;
    if (o->connect_err) { o->so_error = o->connect_err; o->st = S_NEW; edge(o, EPOLLOUT | EPOLLERR | EPOLLHUP | EPOLLIN); return; }
    o->st = S_CONNECTED;
    edge(o, EPOLLOUT);
}

// moves everything whose time has come
void advance() {
    uint64_t t = now();
    for (size_t i = 0; i < all_socks.size(); i++) {
        Obj* o = all_socks[i];
        if (o->connect_at && o->connect_at <= t) complete_connect(o);
        while (!o->inflight.empty() && o->inflight.front().at <= t) {
            Chunk c = std::move(o->inflight.front()); o->inflight.pop_front();
            deliver(o, c);
        }
    }
}

uint64_t next_event_time() {
    uint64_t m = ~0ULL;
    for (Obj* o : all_socks) {
        if (o->connect_at) m = std::min(m, o->connect_at);
        if (!o->inflight.empty()) m = std::min(m, o->inflight.front().at);
    }
    return m;
}

P new_sock(int domain) {
    P o = std::make_shared<Obj>(); o->kind = K_SOCK; o->domain = domain;
    o->sndbuf = tuning.sndbuf_choices[sim::rnd(tuning.n_sndbuf)];
    o->mss = tuning.mss_choices[sim::rnd(tuning.n_mss)];
    all_socks.push_back(o.get());
    return o;
}

void forget_sock(Obj* o) { all_socks.erase(std::remove(all_socks.begin(), all_socks.end(), o), all_socks.end()); }

void unwatch_all(Obj* o) {
    for (Obj* e : o->watchers) e->regs.erase(o->fd);
    o->watchers.clear();
}

void fill_addr(const std::string& a, struct sockaddr* addr, socklen_t* len) {
    if (!addr || !len) return;
    socklen_t n = std::min<socklen_t>(*len, a.size());
    memcpy(addr, a.data(), n);
    *len = a.size();
}

std::string ephemeral(int domain) {
    if (domain == AF_INET) { sockaddr_in a{}; a.sin_family = AF_INET; a.sin_port = htons(g_port++); a.sin_addr.s_addr = htonl(INADDR_LOOPBACK); return std::string((char*)&a, sizeof a); }
    if (domain == AF_INET6) { sockaddr_in6 a{}; a.sin6_family = AF_INET6; a.sin6_port = htons(g_port++); a.sin6_addr = in6addr_loopback; return std::string((char*)&a, sizeof a); }
    sockaddr_un a{}; a.sun_family = AF_UNIX; return std::string((char*)&a, sizeof(a.sun_family));
}

// ---- stream I/O on a connected socket -----------------------------------------------------------
ssize_t sock_recv(Obj* o, const struct iovec* iov, int iovcnt, int flags) {
    advance();
    if (o->st == S_LISTEN || o->st == S_NEW || o->st == S_CONNECTING) { errno = ENOTCONN; return -1; }
    size_t want = 0; for (int i = 0; i < iovcnt; i++) want += iov[i].iov_len;
    size_t av = o->avail();
    if (av == 0) {
        if (o->so_error) { errno = o->so_error; o->so_error = 0; return -1; }
        if (o->fin_rcvd || o->rd_shut || o->rst_rcvd) return 0;
        if (want == 0) return 0;
        if (!(o->fl & O_NONBLOCK) && !(flags & MSG_DONTWAIT)) sim::finish("error", "harness", "blocking read on a simulated socket");
        stats.eagain_read++;
        errno = EAGAIN; return -1;
    }
    size_t n = std::min(want, av);
    if (n > 1 && sim::rnd(1000) < tuning.p_short_read) { n = 1 + sim::rnd(n - 1); stats.short_reads++; sim::fault_fired("kernel_short_read"); }
    size_t done = 0;
    for (int i = 0; i < iovcnt && done < n; i++) {
        size_t k = std::min(iov[i].iov_len, n - done);
        memcpy(iov[i].iov_base, o->rx.data() + o->rx_off + done, k); done += k;
    }
    if (!(flags & MSG_PEEK)) {
        o->rx_off += n; o->n_consumed += n;
        if (o->rx_off == o->rx.size()) { o->rx.clear(); o->rx_off = 0; }
        else if (o->rx_off > 65536) { o->rx.erase(0, o->rx_off); o->rx_off = 0; }
        acked(o->peer.get(), n);
    }
    return n;
}

ssize_t sock_send(Obj* o, const struct iovec* iov, int iovcnt, int flags) {
    advance();
    if (o->st != S_CONNECTED) { errno = o->st == S_CONNECTING ? EAGAIN : ENOTCONN; if (o->st == S_NEW && o->so_error) { errno = o->so_error; o->so_error = 0; } return -1; }
    if (o->so_error) { errno = o->so_error; o->so_error = 0; return -1; }
    if (o->wr_shut || o->rst_rcvd || o->peer_gone) { errno = EPIPE; return -1; }
    size_t want = 0; for (int i = 0; i < iovcnt; i++) want += iov[i].iov_len;
    if (want == 0) return 0;
    uint64_t fr = o->sndbuf > o->unacked ? o->sndbuf - o->unacked : 0;
    if (fr == 0) {
        if (!(o->fl & O_NONBLOCK) && !(flags & MSG_DONTWAIT)) sim::finish("error", "harness", "blocking write on a simulated socket");
        o->nospace = true; stats.eagain_write++;
        errno = EAGAIN; return -1;
    }
    size_t n = std::min<uint64_t>(want, fr);
    if (n > 1 && sim::rnd(1000) < tuning.p_short_write) { n = 1 + sim::rnd(n - 1); stats.short_writes++; sim::fault_fired("kernel_short_write"); }
    if (n < want) o->nospace = true;
    std::string data; data.reserve(n);
    for (int i = 0; i < iovcnt && data.size() < n; i++) data.append((const char*)iov[i].iov_base, std::min(iov[i].iov_len, n - data.size()));
    o->unacked += n; stats.bytes += n; o->n_accepted += n;
    Obj* p = o->peer.get();
    for (size_t off = 0; off < n;) {
        size_t k = std::min<size_t>(o->mss, n - off);
        Chunk c; c.data.assign(data, off, k); off += k; stats.segments++;
        if (p) queue_chunk(p, std::move(c));
    }
    sim::wake_all(&g_token);          // sleepers recompute their next event time
    return n;
}

int sock_close(Obj* o) {
    advance();
    unwatch_all(o);
    if (o->st == S_LISTEN) {
        for (auto it = listeners.begin(); it != listeners.end();) if (it->second == o) it = listeners.erase(it); else ++it;
        for (auto& c : o->acceptq) { c->st = S_DEAD; if (c->peer) { Chunk r; r.rst = true; queue_chunk(c->peer.get(), r); } }
        o->acceptq.clear();
    } else if (o->st == S_CONNECTED && o->peer) {
        Chunk c;
        if (o->avail() && !o->rst_rcvd) { c.rst = true; o->rst_sent = true; }          // closing with unread data resets the connection
        else { c.fin = true; c.closing = true; }
        if (!o->rst_rcvd) queue_chunk(o->peer.get(), std::move(c));
        acked(o->peer.get(), o->avail());
        o->rx.clear(); o->rx_off = 0;
    }
    o->st = S_DEAD; o->connect_at = 0;
    sim::wake_all(&g_token);
    return 0;
}

int do_close(int fd) {
    P o = fdt[fd];
    if (o->kind == K_SOCK) sock_close(o.get());
    else {
        unwatch_all(o.get());
        if (o->kind == K_EPOLL) {
            for (auto& kv : o->regs) { Obj* t = get(kv.first); if (t) t->watchers.erase(std::remove(t->watchers.begin(), t->watchers.end(), o.get()), t->watchers.end()); }
            o->regs.clear();
        }
    }
    fdt[fd].reset(); o->fd = -1;
    return 0;
}

}  // namespace

namespace simk {
bool is_sim_fd(int fd) { return simfd(fd); }
int open_fds() { int n = 0; for (int i = BASE; i < MAXFD; i++) if (fdt[i]) n++; return n; }
int pending_rx(int fd) { Obj* o = get(fd); return o ? (int)o->avail() : -1; }
uint64_t rx_consumed(int fd) { Obj* o = get(fd); return o ? o->n_consumed : 0; }
uint64_t tx_accepted(int fd) { Obj* o = get(fd); return o ? o->n_accepted : 0; }
bool was_reset(int fd) { Obj* o = get(fd); return o && o->rst_rcvd; }
uint32_t sndbuf_of(int fd) { Obj* o = get(fd); return o ? o->sndbuf : 0; }
int inject_reset(int fd) {
    Obj* o = get(fd);
    if (!o || o->kind != K_SOCK || o->st != S_CONNECTED) return -1;
    advance();
    Chunk a; a.rst = true; a.at = now(); o->inflight.clear(); deliver(o, a);
    if (o->peer) { Chunk b; b.rst = true; o->peer->inflight.clear(); o->peer->last_arrival = 0; queue_chunk(o->peer.get(), b); }
    sim::fault_fired("connection_reset");
    return 0;
}
const char* describe(int fd) {
    static char b[200]; Obj* o = get(fd);
    if (!o) { snprintf(b, sizeof b, "fd %d: not simulated", fd); return b; }
    if (o->kind == K_SOCK) snprintf(b, sizeof b, "fd %d: socket state %d rx %zu inflight %zu unacked %llu/%u fin %d rst %d", fd, (int)o->st, o->avail(), o->inflight.size(), (unsigned long long)o->unacked, o->sndbuf, o->fin_rcvd, o->rst_rcvd);
    else snprintf(b, sizeof b, "fd %d: kind %d regs %zu counter %llu", fd, (int)o->kind, o->regs.size(), (unsigned long long)o->counter);
    return b;
}
}

// ---- wrapped entry points ---------------------------------------------------------------------------
extern "C" {

int __wrap_socket(int domain, int type, int protocol) {
    if ((domain != AF_INET && domain != AF_INET6 && domain != AF_UNIX) || (type & 0xf) != SOCK_STREAM) return __real_socket(domain, type, protocol);
    stats.syscalls++;
    P o = new_sock(domain);
    if (type & SOCK_NONBLOCK) o->fl |= O_NONBLOCK;
    int fd = alloc_fd(o);
    if (fd < 0) forget_sock(o.get());
    return fd;
}

int __wrap_bind(int fd, const struct sockaddr* addr, socklen_t len) {
    Obj* o = get(fd); if (!o) return __real_bind(fd, addr, len);
    stats.syscalls++;
    if (o->kind != K_SOCK) { errno = ENOTSOCK; return -1; }
    std::string a((const char*)addr, len);
    if (addr->sa_family == AF_INET && ((const sockaddr_in*)addr)->sin_port == 0) ((sockaddr_in*)&a[0])->sin_port = htons(g_port++);
    if (addr->sa_family == AF_INET6 && ((const sockaddr_in6*)addr)->sin6_port == 0) ((sockaddr_in6*)&a[0])->sin6_port = htons(g_port++);
    std::string key = addr_key((const sockaddr*)a.data(), a.size());
    if (listeners.count(key)) { errno = EADDRINUSE; return -1; }
    o->local = a;
    return 0;
}

int __wrap_listen(int fd, int backlog) {
    Obj* o = get(fd); if (!o) return __real_listen(fd, backlog);
    stats.syscalls++;
    if (o->kind != K_SOCK) { errno = ENOTSOCK; return -1; }
    if (o->local.empty()) o->local = ephemeral(o->domain);
    o->st = S_LISTEN; o->backlog = std::max(backlog, 1);
    listeners[addr_key((const sockaddr*)o->local.data(), o->local.size())] = o;
    return 0;
}

int __wrap_connect(int fd, const struct sockaddr* addr, socklen_t len) {
    Obj* o = get(fd); if (!o) return __real_connect(fd, addr, len);
    stats.syscalls++; advance();
    if (o->kind != K_SOCK) { errno = ENOTSOCK; return -1; }
    if (o->st == S_CONNECTED) { errno = EISCONN; return -1; }
    if (o->st == S_CONNECTING) { errno = EALREADY; return -1; }
    if (o->local.empty()) o->local = ephemeral(o->domain);
    o->remote.assign((const char*)addr, len);
    auto it = listeners.find(addr_key(addr, len));
    Obj* l = it == listeners.end() ? nullptr : it->second;
    bool async = o->domain != AF_UNIX && sim::rnd(1000) < tuning.p_inet_connect_async;
    int err = 0;
    if (!l) err = ECONNREFUSED;
    else if ((int)l->acceptq.size() >= l->backlog + 1) err = o->domain == AF_UNIX ? EAGAIN : ETIMEDOUT;
    if (!err) {
        P s = new_sock(o->domain);
        s->st = S_CONNECTED; s->fl = 0; s->local = l->local; s->remote = o->local;
        s->peer = fdt[fd]; o->peer = s;
        stats.conns++;
        l->acceptq.push_back(s);
        edge(l, EPOLLIN);
    }
    if (!async) {
        if (err) { errno = err; return -1; }
        o->st = S_CONNECTED;
        return 0;
    }
    o->st = S_CONNECTING; o->connect_err = err; o->connect_at = now() + latency_ns() + 1;
    sim::wake_all(&g_token);
    if (!(o->fl & O_NONBLOCK)) sim::finish("error", "harness", "blocking connect on a simulated socket");
    errno = EINPROGRESS; return -1;
}

int __wrap_accept4(int fd, struct sockaddr* addr, socklen_t* len, int flags) {
    Obj* o = get(fd); if (!o) return __real_accept4(fd, addr, len, flags);
    stats.syscalls++; advance();
    if (o->kind != K_SOCK || o->st != S_LISTEN) { errno = EINVAL; return -1; }
    if (o->acceptq.empty()) {
        if (!(o->fl & O_NONBLOCK)) sim::finish("error", "harness", "blocking accept on a simulated socket");
        errno = EAGAIN; return -1;
    }
    P s = o->acceptq.front(); o->acceptq.pop_front();
    if (flags & SOCK_NONBLOCK) s->fl |= O_NONBLOCK;
    int nfd = alloc_fd(s);
    if (nfd < 0) return -1;
    fill_addr(s->remote, addr, len);
    return nfd;
}
int __wrap_accept(int fd, struct sockaddr* addr, socklen_t* len) {
    if (!get(fd)) return __real_accept(fd, addr, len);
    return __wrap_accept4(fd, addr, len, 0);
}

static ssize_t evfd_read(Obj* o, void* buf, size_t n) {
    if (n < 8) { errno = EINVAL; return -1; }
    if (!o->counter) { errno = EAGAIN; return -1; }
    memcpy(buf, &o->counter, 8); o->counter = 0;
    return 8;
}
static ssize_t evfd_write(Obj* o, const void* buf, size_t n) {
    if (n < 8) { errno = EINVAL; return -1; }
    uint64_t v; memcpy(&v, buf, 8);
    o->counter += v;
    edge(o, EPOLLIN);
    return 8;
}

ssize_t __wrap_read(int fd, void* buf, size_t n) {
    Obj* o = get(fd); if (!o) return __real_read(fd, buf, n);
    stats.syscalls++;
    if (o->kind == K_EVENTFD) return evfd_read(o, buf, n);
    if (o->kind != K_SOCK) { errno = EINVAL; return -1; }
    struct iovec v{buf, n}; return sock_recv(o, &v, 1, 0);
}
ssize_t __wrap_recv(int fd, void* buf, size_t n, int flags) {
    Obj* o = get(fd); if (!o) return __real_recv(fd, buf, n, flags);
    stats.syscalls++;
    if (o->kind != K_SOCK) { errno = ENOTSOCK; return -1; }
    struct iovec v{buf, n}; return sock_recv(o, &v, 1, flags);
}
ssize_t __wrap_readv(int fd, const struct iovec* iov, int cnt) {
    Obj* o = get(fd); if (!o) return __real_readv(fd, iov, cnt);
    stats.syscalls++;
    if (o->kind != K_SOCK) { errno = EINVAL; return -1; }
    return sock_recv(o, iov, cnt, 0);
}
ssize_t __wrap_recvmsg(int fd, struct msghdr* m, int flags) {
    Obj* o = get(fd); if (!o) return __real_recvmsg(fd, m, flags);
    stats.syscalls++;
    if (o->kind != K_SOCK) { errno = ENOTSOCK; return -1; }
    m->msg_flags = 0; m->msg_controllen = 0;
    return sock_recv(o, m->msg_iov, (int)m->msg_iovlen, flags);
}
ssize_t __wrap_write(int fd, const void* buf, size_t n) {
    Obj* o = get(fd); if (!o) return __real_write(fd, buf, n);
    stats.syscalls++;
    if (o->kind == K_EVENTFD) return evfd_write(o, buf, n);
    if (o->kind != K_SOCK) { errno = EINVAL; return -1; }
    struct iovec v{(void*)buf, n}; return sock_send(o, &v, 1, 0);
}
ssize_t __wrap_send(int fd, const void* buf, size_t n, int flags) {
    Obj* o = get(fd); if (!o) return __real_send(fd, buf, n, flags);
    stats.syscalls++;
    if (o->kind != K_SOCK) { errno = ENOTSOCK; return -1; }
    struct iovec v{(void*)buf, n}; return sock_send(o, &v, 1, flags);
}
ssize_t __wrap_writev(int fd, const struct iovec* iov, int cnt) {
    Obj* o = get(fd); if (!o) return __real_writev(fd, iov, cnt);
    stats.syscalls++;
    if (o->kind != K_SOCK) { errno = EINVAL; return -1; }
    return sock_send(o, iov, cnt, 0);
}
ssize_t __wrap_sendmsg(int fd, const struct msghdr* m, int flags) {
    Obj* o = get(fd); if (!o) return __real_sendmsg(fd, m, flags);
    stats.syscalls++;
    if (o->kind != K_SOCK) { errno = ENOTSOCK; return -1; }
    return sock_send(o, m->msg_iov, (int)m->msg_iovlen, flags);
}
ssize_t __wrap_sendfile(int out, int in, off_t* off, size_t n) {
    if (!get(out)) return __real_sendfile(out, in, off, n);
    errno = ENOSYS; return -1;
}

int __wrap_shutdown(int fd, int how) {
    Obj* o = get(fd); if (!o) return __real_shutdown(fd, how);
    stats.syscalls++; advance();
    if (o->kind != K_SOCK) { errno = ENOTSOCK; return -1; }
    if (o->st != S_CONNECTED) { errno = ENOTCONN; return -1; }
    if ((how == SHUT_WR || how == SHUT_RDWR) && !o->wr_shut) {
        o->wr_shut = true;
        if (o->peer && !o->rst_rcvd) { Chunk c; c.fin = true; queue_chunk(o->peer.get(), std::move(c)); }
        edge(o, EPOLLOUT | ((o->fin_rcvd || o->rd_shut) ? EPOLLHUP : 0));
    }
    if ((how == SHUT_RD || how == SHUT_RDWR) && !o->rd_shut) {
        o->rd_shut = true;
        acked(o->peer.get(), o->avail()); o->rx.clear(); o->rx_off = 0;
        edge(o, EPOLLIN | EPOLLRDHUP | (o->wr_shut ? EPOLLHUP : 0));
    }
    sim::wake_all(&g_token);
    return 0;
}

int __wrap_close(int fd) {
    if (!simfd(fd)) return __real_close(fd);
    stats.syscalls++;
    return do_close(fd);
}

int __wrap_setsockopt(int fd, int level, int name, const void* val, socklen_t len) {
    Obj* o = get(fd); if (!o) return __real_setsockopt(fd, level, name, val, len);
    if (o->kind != K_SOCK) { errno = ENOTSOCK; return -1; }
    return 0;
}
int __wrap_getsockopt(int fd, int level, int name, void* val, socklen_t* len) {
    Obj* o = get(fd); if (!o) return __real_getsockopt(fd, level, name, val, len);
    stats.syscalls++; advance();
    if (o->kind != K_SOCK) { errno = ENOTSOCK; return -1; }
    int v = 0;
    if (level == SOL_SOCKET && name == SO_ERROR) { v = o->so_error; o->so_error = 0; }
    if (val && len && *len >= sizeof(int)) { memcpy(val, &v, sizeof v); *len = sizeof v; }
    return 0;
}
int __wrap_getsockname(int fd, struct sockaddr* addr, socklen_t* len) {
    Obj* o = get(fd); if (!o) return __real_getsockname(fd, addr, len);
    if (o->kind != K_SOCK) { errno = ENOTSOCK; return -1; }
    if (o->local.empty()) o->local = ephemeral(o->domain);
    fill_addr(o->local, addr, len); return 0;
}
int __wrap_getpeername(int fd, struct sockaddr* addr, socklen_t* len) {
    Obj* o = get(fd); if (!o) return __real_getpeername(fd, addr, len);
    if (o->kind != K_SOCK) { errno = ENOTSOCK; return -1; }
    if (o->st != S_CONNECTED) { errno = ENOTCONN; return -1; }
    fill_addr(o->remote, addr, len); return 0;
}

static int sim_fcntl(Obj* o, int cmd, long arg) {
    switch (cmd) {
    case F_GETFL: return o->fl | O_RDWR;
    case F_SETFL: o->fl = (o->fl & ~O_NONBLOCK) | ((int)arg & O_NONBLOCK); return 0;
    case F_GETFD: return 0;
    case F_SETFD: return 0;
    default: errno = EINVAL; return -1;
    }
}
int __wrap_fcntl(int fd, int cmd, ...) {
    va_list ap; va_start(ap, cmd); long arg = va_arg(ap, long); va_end(ap);
    Obj* o = get(fd); if (!o) return __real_fcntl(fd, cmd, arg);
    return sim_fcntl(o, cmd, arg);
}
int __wrap_fcntl64(int fd, int cmd, ...) {
    va_list ap; va_start(ap, cmd); long arg = va_arg(ap, long); va_end(ap);
    Obj* o = get(fd); if (!o) return __real_fcntl64(fd, cmd, arg);
    return sim_fcntl(o, cmd, arg);
}
int __wrap_ioctl(int fd, unsigned long req, ...) {
    va_list ap; va_start(ap, req); void* arg = va_arg(ap, void*); va_end(ap);
    Obj* o = get(fd); if (!o) return __real_ioctl(fd, req, arg);
    if (req == FIONBIO) { int v = *(int*)arg; o->fl = v ? (o->fl | O_NONBLOCK) : (o->fl & ~O_NONBLOCK); return 0; }
    if (req == FIONREAD) { *(int*)arg = o->kind == K_SOCK ? (int)o->avail() : 0; return 0; }
    errno = EINVAL; return -1;
}

// ---- eventfd ----------------------------------------------------------------------------------------
int __wrap_eventfd(unsigned int init, int flags) {
    stats.syscalls++;
    P o = std::make_shared<Obj>(); o->kind = K_EVENTFD; o->counter = init;
    if (flags & EFD_NONBLOCK) o->fl |= O_NONBLOCK;
    return alloc_fd(o);
}
int __wrap_eventfd_read(int fd, eventfd_t* v) {
    Obj* o = get(fd); if (!o) return __real_eventfd_read(fd, v);
    stats.syscalls++;
    return evfd_read(o, v, 8) == 8 ? 0 : -1;
}
int __wrap_eventfd_write(int fd, eventfd_t v) {
    Obj* o = get(fd); if (!o) return __real_eventfd_write(fd, v);
    stats.syscalls++;
    return evfd_write(o, &v, 8) == 8 ? 0 : -1;
}

// ---- epoll ------------------------------------------------------------------------------------------
int __wrap_epoll_create1(int) {
    stats.syscalls++;
    P o = std::make_shared<Obj>(); o->kind = K_EPOLL;
    return alloc_fd(o);
}
int __wrap_epoll_create(int) { return __wrap_epoll_create1(0); }

int __wrap_epoll_ctl(int epfd, int op, int fd, struct epoll_event* ev) {
    Obj* e = get(epfd); if (!e) return __real_epoll_ctl(epfd, op, fd, ev);
    stats.syscalls++; stats.epoll_ctl_calls++; advance();
    if (e->kind != K_EPOLL) { errno = EINVAL; return -1; }
    Obj* t = get(fd);
    if (!t) { errno = EBADF; return -1; }
    if (t == e) { errno = EINVAL; return -1; }
    auto it = e->regs.find(fd);
    switch (op) {
    case EPOLL_CTL_ADD:
        if (it != e->regs.end()) { errno = EEXIST; return -1; }
        it = e->regs.emplace(fd, Reg()).first;
        t->watchers.push_back(e);
        break;
    case EPOLL_CTL_MOD:
        if (it == e->regs.end()) { errno = ENOENT; return -1; }
        break;
    case EPOLL_CTL_DEL:
        if (it == e->regs.end()) { errno = ENOENT; return -1; }
        e->regs.erase(it);
        t->watchers.erase(std::remove(t->watchers.begin(), t->watchers.end(), e), t->watchers.end());
        return 0;
    default: errno = EINVAL; return -1;
    }
    Reg& r = it->second;
    r.events = ev->events; r.data = ev->data; r.disabled = false; r.ready_seq = 0;
    // arming polls the target: a registration that is ready right now is reported (this is also the "edge" of EPOLLET)
    r.pending = (poll_mask(t) & (r.events | EPOLLERR | EPOLLHUP)) != 0;
    if (r.pending) { r.ready_seq = ++g_seq; edge(e, EPOLLIN, 1); sim::wake_all(&g_token); }
    return 0;
}

static int collect(Obj* e, struct epoll_event* out, int maxev) {
    struct Cand { uint64_t seq; int fd; uint32_t m; };
    std::vector<Cand> c;
    for (auto& kv : e->regs) {
        Obj* t = get(kv.first); if (!t) continue;
        uint32_t m = reg_ready(t, kv.second);
        if (!m) continue;
        if (!kv.second.ready_seq) kv.second.ready_seq = ++g_seq;
        c.push_back({kv.second.ready_seq, kv.first, m});
    }
    std::sort(c.begin(), c.end(), [](const Cand& a, const Cand& b) { return a.seq < b.seq; });
    int n = 0;
    for (auto& x : c) {
        if (n >= maxev) break;
        Reg& r = e->regs[x.fd];
        out[n].events = x.m; out[n].data = r.data; n++;
        r.pending = false; r.ready_seq = 0;
        if (r.events & EPOLLONESHOT) r.disabled = true;
    }
    if ((uint64_t)n > stats.max_batch) stats.max_batch = n;
    stats.epoll_events += n;
    return n;
}

int __wrap_epoll_wait(int epfd, struct epoll_event* out, int maxev, int timeout_ms) {
    Obj* e = get(epfd); if (!e) return __real_epoll_wait(epfd, out, maxev, timeout_ms);
    P hold = fdt[epfd];
    stats.syscalls++; stats.epoll_waits++;
    if (e->kind != K_EPOLL || maxev <= 0) { errno = EINVAL; return -1; }
    uint64_t deadline = timeout_ms < 0 ? ~0ULL : now() + (uint64_t)timeout_ms * 1000000ULL;
    for (;;) {
        advance();
        if (!simfd(epfd) || fdt[epfd].get() != e) { errno = EBADF; return -1; }
        int n = collect(e, out, maxev);
        if (n > 0 || timeout_ms == 0) return n;
        uint64_t t = now();
        if (t >= deadline) return 0;
        uint64_t wake = std::min(deadline, next_event_time());
        if (wake <= t) continue;
        sim::wait_on(&g_token, wake == ~0ULL ? 0 : wake);
    }
}

}  // extern "C"

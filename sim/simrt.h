// simrt — deterministic simulation runtime for PhotonLibOS verification.
// One seeded scheduler owns every OS thread of the process ("task"): exactly one
// task executes at any instant, and at every scheduling point the scheduler (not
// the kernel) decides who continues.  Time is simulated.  See /verif/DESIGN.md.
#pragma once
#include <stdint.h>
#include <stddef.h>
#include <stdarg.h>

namespace sim {

enum Strategy { ST_RANDOM = 0, ST_PCT = 1, ST_COARSE = 2 };

struct Config {
    uint64_t seed = 0;
    int strategy = ST_RANDOM;
    uint32_t p_atomic_q16 = 0;   // switch probability at an atomic op, in 1/65536
    uint32_t p_plain_q16 = 0;    // switch probability at a plain access
    uint32_t cpu_cost_ns = 0;    // sim time charged per scheduling point
    uint32_t tsc_gran_us = 1;    // granularity of the simulated TSC epoch (photon::now refresh)
    uint32_t tsc_stale_q16 = 0;  // buggify: probability that the TSC reports "unchanged" once more
    uint32_t pct_depth = 3;      // number of priority change points (PCT)
    uint32_t pct_len = 20000;    // estimated run length in steps (PCT)
    uint32_t n_stalls = 0;       // injected task stalls (descheduled vCPU)
    uint32_t stall_horizon = 20000;
    uint64_t stall_max_ns = 20 * 1000 * 1000;
    uint32_t spurious_q16 = 0;   // buggify: spurious condvar wake-up probability
    uint64_t max_steps = 4000000;
    bool verbose = false;
};
extern Config cfg;

// ---- life cycle -----------------------------------------------------------
void configure_from_seed(uint64_t seed);   // draws the swarm configuration
void start();                               // calling thread becomes task 0
bool active();
[[noreturn]] void finish(const char* status, const char* cls, const char* fmt, ...)
    __attribute__((format(printf, 3, 4)));
void set_result_fd(int fd);
void set_replay_trace(const uint32_t* pairs, size_t n); // (step,task) pairs
void set_record_trace(bool on);
typedef void (*deadlock_handler)(void);
void set_deadlock_handler(deadlock_handler h);
void set_budget_verdict(const char* status, const char* cls);
void set_context_tag(const char* tag);      // appended to the message of every non-ok result of this run (also crashes)
const char* context_tag();   // what exhausting cfg.max_steps means for this harness
typedef void (*finish_hook)(const char* status);   // called before the result is written
void set_finish_hook(finish_hook h);
void extra_json(const char* key, const char* json_value); // appended to the result object

// ---- clock ----------------------------------------------------------------
uint64_t now_ns();
uint64_t steps();
uint64_t switches();
void advance_ns(uint64_t ns);    // injected clock jump
uint64_t perturbed_ns();         // sim time added so far by injected stalls and by waking spinners (excluded from lateness verdicts)

// ---- randomness (workload stream, independent of the scheduling stream) ------
uint64_t rnd();
uint64_t rnd(uint64_t n);                  // uniform in [0, n)
bool chance(uint32_t num, uint32_t den);
uint64_t frnd();                           // fault stream
uint64_t frnd(uint64_t n);

// ---- scheduling ------------------------------------------------------------
int task_id();                              // -1 for non-task threads
int task_count();
void nosched_begin();
void nosched_end();
struct NoSched { NoSched() { nosched_begin(); } ~NoSched() { nosched_end(); } };
void yield_point();                         // explicit scheduling point
void sleep_ns(uint64_t ns);                 // task-level sleep on sim time
void stall_self(uint64_t ns);
// Block the calling task until pred() is true or deadline (absolute sim ns, 0 = none).
// pred is evaluated with preemption disabled whenever some task calls wake_all(obj).
bool wait_on(const void* obj, uint64_t deadline_ns);   // returns false on timeout
void wake_all(const void* obj);

// ---- event log / hash / probes --------------------------------------------------
void ev(uint64_t a, uint64_t b = 0, uint64_t c = 0);   // folded into the event hash
void note(const char* fmt, ...) __attribute__((format(printf, 1, 2)));
void probe(const char* name, uint64_t n = 1);           // "this rare condition was hit"
void fault_fired(const char* kind, uint64_t n = 1);
uint64_t event_hash();

// ---- poison map (poor man's use-after-free detection in the fine build) ---------
void poison(const void* p, size_t n, const char* what);
void unpoison(const void* p, size_t n);
void poison_check(const void* p, size_t n, bool is_write);
void set_poison_property(const char* cls);

}  // namespace sim

extern "C" uint32_t photon_verif_rdtsc();

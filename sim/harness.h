// Interface between harness_main.cpp and a harness translation unit.
#pragma once
#include <stdint.h>
#include <vector>
#include "simrt.h"

// Each harness defines this: build the plan from sim::rnd(), call sim::start(),
// execute, evaluate the oracles and end with sim::finish(status, class, msg).
//   status: "ok" | "viol" | "inconclusive" | "error"
void harness_run(uint64_t seed);

namespace hx {
bool dropped(int op_index);          // operation removed by the minimiser
long param(const char* name, long dflt);
}

#define HX_VIOL(cls, ...) sim::finish("viol", cls, __VA_ARGS__)
#define HX_CHECK(cond, cls, ...) do { if (!(cond)) sim::finish("viol", cls, __VA_ARGS__); } while (0)

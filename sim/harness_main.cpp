// Common entry point of every harness binary.
//   <bin> --one SEED [--trace]            run one seed in this process, result JSON on stdout
//   <bin> --worker START COUNT STRIDE     fork one child per seed, one result line per run
//   <bin> --replay FILE                   re-execute a replay file (seed + drops + optional schedule trace)
// Environment: SIM_DROPS="i,j,k" (operations removed from the plan by the minimiser),
//              SIM_PARAM_<name>=v harness parameters, SIM_WALL_MS per-run wall cap.
#include "simrt.h"
#include "harness.h"
#include <stdio.h>
#include <stdlib.h>
#include <string.h>
#include <unistd.h>
#include <signal.h>
#include <poll.h>
#include <errno.h>
#include <sys/wait.h>
#include <sys/syscall.h>
#include <sys/personality.h>
#include <sys/resource.h>
#include <sched.h>
#include <string>
#include <vector>
#include <time.h>

namespace hx {
std::vector<int> g_drops;
bool dropped(int op_index) {
    for (int d : g_drops) if (d == op_index) return true;
    return false;
}
long param(const char* name, long dflt) {
    std::string k = std::string("SIM_PARAM_") + name;
    const char* e = getenv(k.c_str());
    return e ? atol(e) : dflt;
}
}  // namespace hx

static int g_result_fd = 1;

static void crash_handler(int sig, siginfo_t* si, void*) {
    char b[512];
    int n = snprintf(b, sizeof b,
                     "{\"seed\":%llu,\"status\":\"viol\",\"class\":\"crash\",\"msg\":\"signal %d addr %p %s\",\"steps\":%llu,"
                     "\"switches\":%llu,\"sim_ns\":%llu,\"hash\":\"%016llx\",\"probes\":{},\"faults\":{}}\n",
                     (unsigned long long)sim::cfg.seed, sig, si ? si->si_addr : nullptr, sim::context_tag(), (unsigned long long)sim::steps(),
                     (unsigned long long)sim::switches(), (unsigned long long)sim::now_ns(),
                     (unsigned long long)sim::event_hash());
    if (write(g_result_fd, b, n) < 0) {}
    _exit(0);
}

static char g_altstack[1 << 16];
static void install_crash_handlers() {
    stack_t ss; ss.ss_sp = g_altstack; ss.ss_size = sizeof g_altstack; ss.ss_flags = 0;
    sigaltstack(&ss, nullptr);
    struct sigaction sa; memset(&sa, 0, sizeof sa);
    sa.sa_sigaction = crash_handler; sa.sa_flags = SA_SIGINFO | SA_ONSTACK | SA_NODEFER;
    sigaction(SIGSEGV, &sa, nullptr); sigaction(SIGBUS, &sa, nullptr); sigaction(SIGILL, &sa, nullptr);
    sigaction(SIGFPE, &sa, nullptr); sigaction(SIGABRT, &sa, nullptr);
}

static void parse_drops() {
    const char* e = getenv("SIM_DROPS");
    if (!e) return;
    while (*e) {
        char* end; long v = strtol(e, &end, 10);
        if (end == e) break;
        hx::g_drops.push_back((int)v);
        e = *end ? end + 1 : end;
    }
}

static std::vector<uint32_t> g_trace;
static void load_trace(const char* s) {
    std::string filebuf;
    if (*s == '@') {   // "@path": the trace is in a file (an environment string is limited to 128 KiB)
        FILE* f = fopen(s + 1, "r");
        if (!f) { fprintf(stderr, "cannot open trace %s\n", s + 1); _exit(2); }
        char buf[65536]; size_t n;
        while ((n = fread(buf, 1, sizeof buf, f)) > 0) filebuf.append(buf, n);
        fclose(f);
        s = filebuf.c_str();
    }
    while (*s) {
        char* end; unsigned long v = strtoul(s, &end, 10);
        if (end == s) break;
        g_trace.push_back((uint32_t)v);
        s = *end ? end + 1 : end;
    }
}

static void run_one(uint64_t seed, bool record) {
    install_crash_handlers();
    sim::set_result_fd(g_result_fd);
    sim::configure_from_seed(seed);
    if (record) sim::set_record_trace(true);
    if (const char* t = getenv("SIM_TRACE")) { load_trace(t); sim::set_replay_trace(g_trace.data(), g_trace.size()); }
    parse_drops();
    harness_run(seed);
    sim::finish("error", "harness", "harness_run returned without verdict");
}

static double wall_now() {
    struct timespec ts; syscall(SYS_clock_gettime, CLOCK_MONOTONIC, &ts);
    return ts.tv_sec + ts.tv_nsec * 1e-9;
}

static int worker(uint64_t start, uint64_t count, uint64_t stride, double budget_s) {
    long wall_ms = getenv("SIM_WALL_MS") ? atol(getenv("SIM_WALL_MS")) : 20000;
    double t0 = wall_now();
    for (uint64_t i = 0; i < count; i++) {
        if (budget_s > 0 && wall_now() - t0 > budget_s) break;
        uint64_t seed = start + i * stride;
        int pfd[2];
        if (pipe(pfd)) return 2;
        fflush(stdout);
        pid_t pid = fork();
        if (pid == 0) {
            close(pfd[0]);
            g_result_fd = pfd[1];
            run_one(seed, false);
            _exit(3);
        }
        close(pfd[1]);
        std::string out;
        double deadline = wall_now() + wall_ms / 1000.0;
        bool timed_out = false;
        for (;;) {
            struct pollfd p = {pfd[0], POLLIN, 0};
            double left = deadline - wall_now();
            if (left <= 0) { timed_out = true; break; }
            int r = poll(&p, 1, (int)(left * 1000) + 1);
            if (r < 0 && errno == EINTR) continue;
            if (r == 0) { timed_out = true; break; }
            char buf[65536];
            ssize_t n = read(pfd[0], buf, sizeof buf);
            if (n <= 0) break;
            out.append(buf, n);
        }
        close(pfd[0]);
        if (timed_out) kill(pid, SIGKILL);
        int st = 0;
        waitpid(pid, &st, 0);
        if (timed_out) {
            printf("{\"seed\":%llu,\"status\":\"inconclusive\",\"class\":\"wall\",\"msg\":\"wall-clock cap %ld ms\",\"steps\":0,\"switches\":0,\"sim_ns\":0,\"hash\":\"0\",\"probes\":{},\"faults\":{}}\n",
                   (unsigned long long)seed, wall_ms);
        } else if (out.empty() || out.back() != '\n') {
            int sig = WIFSIGNALED(st) ? WTERMSIG(st) : 0;
            printf("{\"seed\":%llu,\"status\":\"viol\",\"class\":\"crash\",\"msg\":\"child died without result (signal %d, exit %d)\",\"steps\":0,\"switches\":0,\"sim_ns\":0,\"hash\":\"0\",\"probes\":{},\"faults\":{}}\n",
                   (unsigned long long)seed, sig, WIFEXITED(st) ? WEXITSTATUS(st) : -1);
        } else {
            fputs(out.c_str(), stdout);
        }
        fflush(stdout);
    }
    return 0;
}

int main(int argc, char** argv) {
    // no ASLR: addresses (and anything hashed from them) repeat from run to run
    int pers = personality(0xffffffff);
    if (pers != -1 && !(pers & ADDR_NO_RANDOMIZE) && !getenv("SIM_NO_REEXEC")) {
        personality(pers | ADDR_NO_RANDOMIZE);
        execv("/proc/self/exe", argv);
    }
    setvbuf(stdout, nullptr, _IOFBF, 1 << 16);
    if (const char* c = getenv("SIM_CPU")) {
        cpu_set_t set; CPU_ZERO(&set); CPU_SET(atoi(c), &set);
        sched_setaffinity(0, sizeof set, &set);
    }
    struct rlimit rl = {0, 0};
    setrlimit(RLIMIT_CORE, &rl);
    if (argc >= 3 && !strcmp(argv[1], "--one")) {
        bool rec = argc >= 4 && !strcmp(argv[3], "--trace");
        run_one(strtoull(argv[2], nullptr, 10), rec);
        return 3;
    }
    if (argc >= 5 && !strcmp(argv[1], "--worker")) {
        double budget = argc >= 6 ? atof(argv[5]) : 0;
        return worker(strtoull(argv[2], nullptr, 10), strtoull(argv[3], nullptr, 10), strtoull(argv[4], nullptr, 10), budget);
    }
    fprintf(stderr, "usage: %s --one SEED [--trace] | --worker START COUNT STRIDE [BUDGET_S]\n", argv[0]);
    return 2;
}

// SimFS — in-memory photon::fs::IFileSystem / IFile with sparse files, fiemap, punch-hole, statvfs,
// seeded latency on data operations, injected faults (EIO, ENOSPC, short transfers) and a request monitor.
// Only data operations (pread*/pwrite*/fsync) may yield (thread_usleep on simulated time); metadata
// operations never yield, like localfs with any engine.  Header-only.
#pragma once
#include <photon/fs/filesystem.h>
#include <photon/fs/fiemap.h>
#include <photon/thread/thread.h>
#include <fcntl.h>
#include <sys/stat.h>
#include <sys/statvfs.h>
#include <dirent.h>
#include <map>
#include <set>
#include <memory>
#include <string>
#include <vector>
#include <functional>
#include <errno.h>
#include <string.h>
#include "simrt.h"

#ifndef FALLOC_FL_KEEP_SIZE
#define FALLOC_FL_KEEP_SIZE 0x01
#define FALLOC_FL_PUNCH_HOLE 0x02
#endif

namespace simfs {

static const uint64_t BLK = 4096;

struct Inode {
    std::string data;                     // logical content (holes hold zeros)
    std::set<uint64_t> blocks;            // allocated 4 KiB blocks
    mode_t mode = S_IFREG | 0644;
    uint64_t ino = 0;
    bool unlinked = false;
    void alloc_range(uint64_t off, uint64_t len) { if (!len) return; for (uint64_t b = off / BLK; b <= (off + len - 1) / BLK; b++) blocks.insert(b); }
    void punch(uint64_t off, uint64_t len) {
        uint64_t end = std::min<uint64_t>(off + len, data.size());
        if (off < end) memset(&data[off], 0, end - off);
        uint64_t b0 = (off + BLK - 1) / BLK, b1 = (off + len) / BLK;      // blocks fully inside
        for (uint64_t b = b0; b < b1; b++) blocks.erase(b);
    }
    void truncate(uint64_t n) {
        data.resize(n);
        while (!blocks.empty() && *blocks.rbegin() * BLK >= n) blocks.erase(std::prev(blocks.end()));
    }
};

enum OpKind { OP_PREAD, OP_PWRITE, OP_FSYNC, OP_FTRUNCATE, OP_FALLOCATE, OP_FSTAT, OP_OPEN, OP_UNLINK, OP_FIEMAP };
struct Req { OpKind kind; const char* path; uint64_t off, len; const void* buf; };
// What the environment does to one request: rc<0 with err => fail; limit < len => short transfer; delay_us => latency
struct Action { int err = 0; uint64_t limit = ~0ULL; uint64_t delay_us = 0; };

class FS;
class File : public photon::fs::IFile {
public:
    FS* fs; std::shared_ptr<Inode> ino; std::string path; int flags; off_t pos = 0; bool closed = false;
    File(FS* f, std::shared_ptr<Inode> i, std::string p, int fl) : fs(f), ino(std::move(i)), path(std::move(p)), flags(fl) {}
    ~File() override;
    photon::fs::IFileSystem* filesystem() override;
    Action act(OpKind k, uint64_t off, uint64_t len, const void* buf);
    ssize_t pread(void* buf, size_t count, off_t offset) override {
        Action a = act(OP_PREAD, offset, count, buf);
        if (a.delay_us) photon::thread_usleep(a.delay_us);
        if (a.err) { errno = a.err; return -1; }
        if ((uint64_t)offset >= ino->data.size()) return 0;
        size_t n = std::min<uint64_t>(std::min<uint64_t>(count, ino->data.size() - offset), a.limit);
        memcpy(buf, ino->data.data() + offset, n);
        return n;
    }
    ssize_t pwrite(const void* buf, size_t count, off_t offset) override {
        Action a = act(OP_PWRITE, offset, count, buf);
        if (a.delay_us) photon::thread_usleep(a.delay_us);
        if (a.err) { errno = a.err; return -1; }
        size_t n = std::min<uint64_t>(count, a.limit);
        if (offset + n > ino->data.size()) ino->data.resize(offset + n);
        memcpy(&ino->data[offset], buf, n);
        ino->alloc_range(offset, n);
        return n;
    }
    ssize_t preadv(const struct iovec* iov, int iovcnt, off_t offset) override {
        // one request to the medium: gather into a bounce buffer so that faults apply to the whole request
        size_t total = 0; for (int i = 0; i < iovcnt; i++) total += iov[i].iov_len;
        std::string tmp(total, 0);
        ssize_t r = pread(&tmp[0], total, offset);
        if (r <= 0) return r;
        size_t off = 0;
        for (int i = 0; i < iovcnt && off < (size_t)r; i++) { size_t n = std::min(iov[i].iov_len, (size_t)r - off); memcpy(iov[i].iov_base, tmp.data() + off, n); off += n; }
        return r;
    }
    ssize_t pwritev(const struct iovec* iov, int iovcnt, off_t offset) override {
        std::string tmp; for (int i = 0; i < iovcnt; i++) tmp.append((const char*)iov[i].iov_base, iov[i].iov_len);
        return pwrite(tmp.data(), tmp.size(), offset);
    }
    ssize_t read(void* buf, size_t count) override { ssize_t r = pread(buf, count, pos); if (r > 0) pos += r; return r; }
    ssize_t write(const void* buf, size_t count) override { if (flags & O_APPEND) pos = ino->data.size(); ssize_t r = pwrite(buf, count, pos); if (r > 0) pos += r; return r; }
    ssize_t readv(const struct iovec* iov, int iovcnt) override { ssize_t r = preadv(iov, iovcnt, pos); if (r > 0) pos += r; return r; }
    ssize_t writev(const struct iovec* iov, int iovcnt) override { if (flags & O_APPEND) pos = ino->data.size(); ssize_t r = pwritev(iov, iovcnt, pos); if (r > 0) pos += r; return r; }
    off_t lseek(off_t offset, int whence) override {
        uint64_t size = ino->data.size();
        if (whence == SEEK_SET) pos = offset; else if (whence == SEEK_CUR) pos += offset; else if (whence == SEEK_END) pos = size + offset;
        else if (whence == SEEK_DATA || whence == SEEK_HOLE) {
            if ((uint64_t)offset >= size) { errno = ENXIO; return -1; }
            uint64_t b = offset / BLK;
            bool want_data = whence == SEEK_DATA;
            for (uint64_t o = offset; o < size; o = (++b) * BLK) if ((ino->blocks.count(b) > 0) == want_data) { pos = o; return pos; }
            if (want_data) { errno = ENXIO; return -1; }
            pos = size;
        } else { errno = EINVAL; return -1; }
        return pos;
    }
    int fsync() override { Action a = act(OP_FSYNC, 0, 0, nullptr); if (a.delay_us) photon::thread_usleep(a.delay_us); if (a.err) { errno = a.err; return -1; } return 0; }
    int fdatasync() override { return fsync(); }
    int fchmod(mode_t) override { return 0; }
    int fchown(uid_t, gid_t) override { return 0; }
    int fstat(struct stat* st) override;
    int ftruncate(off_t length) override { Action a = act(OP_FTRUNCATE, length, 0, nullptr); if (a.err) { errno = a.err; return -1; } ino->truncate(length); return 0; }
    int close() override { closed = true; return 0; }
    int fallocate(int mode, off_t offset, off_t len) override {
        Action a = act(OP_FALLOCATE, offset, len, nullptr); if (a.err) { errno = a.err; return -1; }
        if (mode & FALLOC_FL_PUNCH_HOLE) { ino->punch(offset, len); return 0; }
        if (!(mode & FALLOC_FL_KEEP_SIZE) && (uint64_t)(offset + len) > ino->data.size()) ino->data.resize(offset + len);
        ino->alloc_range(offset, std::min<uint64_t>(len, ino->data.size() > (uint64_t)offset ? ino->data.size() - offset : 0));
        return 0;
    }
    int fiemap(struct photon::fs::fiemap* map) override;
    int fadvise(off_t, off_t, int) override { return 0; }
};

class Dir : public photon::fs::DIR {
public:
    std::vector<std::string> names; size_t i = 0; struct dirent de;
    int closedir() override { return 0; }
    struct dirent* get() override {
        if (i >= names.size()) return nullptr;
        memset(&de, 0, sizeof de); snprintf(de.d_name, sizeof de.d_name, "%s", names[i].c_str()); de.d_type = names[i].back() == '/' ? DT_DIR : DT_REG;
        if (de.d_type == DT_DIR) de.d_name[strlen(de.d_name) - 1] = 0;
        return &de;
    }
    int next() override { if (i < names.size()) i++; return i < names.size() ? 1 : 0; }
    void rewinddir() override { i = 0; }
    void seekdir(long long loc) override { i = loc; }
    long long telldir() override { return i; }
};

class FS : public photon::fs::IFileSystem {
public:
    std::map<std::string, std::shared_ptr<Inode>> files;     // normalised absolute paths
    std::set<std::string> dirs{"/"};
    uint64_t next_ino = 100;
    uint64_t capacity_bytes = 1ULL << 40;      // statvfs: size of the "disk"
    uint64_t blocks_scale = 1;                  // st_blocks / used space are multiplied by this (small data, big pool numbers)
    bool support_fiemap = true;
    int open_files = 0;
    std::function<Action(const Req&)> policy;   // fault / latency plan of the harness; null = perfect medium
    std::function<void(const Req&)> monitor;    // sees every data request

    static std::string norm(const char* p) {
        std::string s = "/"; std::string cur;
        for (const char* c = p;; c++) {
            if (*c == '/' || *c == 0) { if (!cur.empty() && cur != ".") { if (s.back() != '/') s += '/'; s += cur; } cur.clear(); if (!*c) break; }
            else cur += *c;
        }
        return s;
    }
    static std::string parent(const std::string& p) { auto k = p.rfind('/'); return k == 0 ? "/" : p.substr(0, k); }
    uint64_t used_bytes() const { uint64_t n = 0; for (auto& kv : files) n += kv.second->blocks.size() * BLK; return n * blocks_scale; }

    photon::fs::IFile* open(const char* pathname, int flags, mode_t mode) override {
        std::string p = norm(pathname);
        if (policy) { Action a = policy({OP_OPEN, p.c_str(), 0, 0, nullptr}); if (a.err) { errno = a.err; return nullptr; } }
        auto it = files.find(p);
        if (it == files.end()) {
            if (!(flags & O_CREAT)) { errno = ENOENT; return nullptr; }
            if (!dirs.count(parent(p))) { errno = ENOENT; return nullptr; }
            if (dirs.count(p)) { errno = EISDIR; return nullptr; }
            auto ino = std::make_shared<Inode>(); ino->ino = next_ino++; ino->mode = S_IFREG | (mode & 0777);
            it = files.emplace(p, ino).first;
        } else if ((flags & O_CREAT) && (flags & O_EXCL)) { errno = EEXIST; return nullptr; }
        if (flags & O_TRUNC) it->second->truncate(0);
        open_files++;
        return new File(this, it->second, p, flags);
    }
    photon::fs::IFile* open(const char* pathname, int flags) override { return open(pathname, flags, 0644); }
    photon::fs::IFile* creat(const char* pathname, mode_t mode) override { return open(pathname, O_CREAT | O_WRONLY | O_TRUNC, mode); }
    int mkdir(const char* pathname, mode_t) override {
        std::string p = norm(pathname);
        if (dirs.count(p) || files.count(p)) { errno = EEXIST; return -1; }
        if (!dirs.count(parent(p))) { errno = ENOENT; return -1; }
        dirs.insert(p); return 0;
    }
    int rmdir(const char* pathname) override {
        std::string p = norm(pathname);
        if (!dirs.count(p)) { errno = ENOENT; return -1; }
        for (auto& f : files) if (parent(f.first) == p) { errno = ENOTEMPTY; return -1; }
        for (auto& d : dirs) if (d != p && parent(d) == p) { errno = ENOTEMPTY; return -1; }
        dirs.erase(p); return 0;
    }
    int symlink(const char*, const char*) override { errno = ENOSYS; return -1; }
    ssize_t readlink(const char*, char*, size_t) override { errno = EINVAL; return -1; }
    int link(const char*, const char*) override { errno = ENOSYS; return -1; }
    int rename(const char* o, const char* n) override {
        std::string a = norm(o), b = norm(n);
        auto it = files.find(a); if (it == files.end()) { errno = ENOENT; return -1; }
        if (!dirs.count(parent(b))) { errno = ENOENT; return -1; }
        auto ino = it->second; files.erase(it); files[b] = ino; return 0;
    }
    int unlink(const char* filename) override {
        std::string p = norm(filename);
        if (policy) { Action a = policy({OP_UNLINK, p.c_str(), 0, 0, nullptr}); if (a.err) { errno = a.err; return -1; } }
        auto it = files.find(p); if (it == files.end()) { errno = ENOENT; return -1; }
        it->second->unlinked = true; files.erase(it); return 0;
    }
    int chmod(const char*, mode_t) override { return 0; }
    int chown(const char*, uid_t, gid_t) override { return 0; }
    int lchown(const char*, uid_t, gid_t) override { return 0; }
    int statfs(const char*, struct statfs*) override { errno = ENOSYS; return -1; }
    int statvfs(const char*, struct statvfs* buf) override {
        memset(buf, 0, sizeof *buf);
        buf->f_bsize = buf->f_frsize = BLK;
        buf->f_blocks = capacity_bytes / BLK;
        uint64_t used = used_bytes() / BLK;
        buf->f_bfree = buf->f_bavail = buf->f_blocks > used ? buf->f_blocks - used : 0;
        buf->f_files = 1 << 20; buf->f_ffree = buf->f_favail = (1 << 20) - files.size();
        buf->f_namemax = 255;
        return 0;
    }
    void fill_stat(const Inode& i, struct stat* st) {
        memset(st, 0, sizeof *st);
        st->st_mode = i.mode; st->st_ino = i.ino; st->st_size = i.data.size(); st->st_blksize = BLK;
        st->st_blocks = i.blocks.size() * (BLK / 512) * blocks_scale; st->st_nlink = 1;
    }
    int stat(const char* path, struct stat* st) override {
        std::string p = norm(path);
        auto it = files.find(p);
        if (it != files.end()) { fill_stat(*it->second, st); return 0; }
        if (dirs.count(p)) { memset(st, 0, sizeof *st); st->st_mode = S_IFDIR | 0755; st->st_nlink = 2; return 0; }
        errno = ENOENT; return -1;
    }
    int lstat(const char* path, struct stat* st) override { return stat(path, st); }
    int access(const char* pathname, int) override { std::string p = norm(pathname); if (files.count(p) || dirs.count(p)) return 0; errno = ENOENT; return -1; }
    int truncate(const char* path, off_t length) override {
        auto it = files.find(norm(path)); if (it == files.end()) { errno = ENOENT; return -1; }
        it->second->truncate(length); return 0;
    }
    int utime(const char*, const struct utimbuf*) override { return 0; }
    int utimes(const char*, const struct timeval[2]) override { return 0; }
    int lutimes(const char*, const struct timeval[2]) override { return 0; }
    int mknod(const char*, mode_t, dev_t) override { errno = ENOSYS; return -1; }
    int syncfs() override { return 0; }
    photon::fs::DIR* opendir(const char* name) override {
        std::string p = norm(name);
        if (!dirs.count(p)) { errno = ENOENT; return nullptr; }
        auto d = new Dir;
        for (auto& f : files) if (parent(f.first) == p) d->names.push_back(f.first.substr(f.first.rfind('/') + 1));
        for (auto& x : dirs) if (x != "/" && parent(x) == p) d->names.push_back(x.substr(x.rfind('/') + 1) + "/");
        return d;
    }
};

inline File::~File() { if (fs) fs->open_files--; }
inline photon::fs::IFileSystem* File::filesystem() { return fs; }
inline Action File::act(OpKind k, uint64_t off, uint64_t len, const void* buf) {
    Req r{k, path.c_str(), off, len, buf};
    if (fs && fs->monitor) fs->monitor(r);
    if (fs && fs->policy) return fs->policy(r);
    return Action();
}
inline int File::fstat(struct stat* st) {
    if (fs && fs->policy) { Action a = fs->policy({OP_FSTAT, path.c_str(), 0, 0, nullptr}); if (a.err) { errno = a.err; return -1; } }
    if (fs) fs->fill_stat(*ino, st);
    else { memset(st, 0, sizeof *st); st->st_mode = ino->mode; st->st_size = ino->data.size(); st->st_blocks = ino->blocks.size() * (BLK / 512); }
    return 0;
}
inline int File::fiemap(struct photon::fs::fiemap* map) {
    if (fs && !fs->support_fiemap) { errno = ENOSYS; return -1; }
    if (fs && fs->policy) { Action a = fs->policy({OP_FIEMAP, path.c_str(), map->fm_start, map->fm_length, nullptr}); if (a.err) { errno = a.err; return -1; } }
    uint64_t start = map->fm_start, end = map->fm_length > ~0ULL - start ? ~0ULL : start + map->fm_length;
    uint32_t n = 0;
    uint64_t cur_s = 0, cur_e = 0; bool have = false;
    auto flush = [&]() {
        if (!have) return;
        uint64_t s = std::max(cur_s, start / BLK * BLK), e = cur_e;
        if (e > s && s < end) {
            if (n < map->fm_extent_count) { auto& x = map->fm_extents[n]; memset(&x, 0, sizeof x); x.fe_logical = s; x.fe_physical = s + (1ULL << 30); x.fe_length = e - s; }
            n++;
        }
        have = false;
    };
    for (uint64_t b : ino->blocks) {
        uint64_t s = b * BLK, e = s + BLK;
        if (e <= start) continue;
        if (s >= end) break;
        if (have && s == cur_e) cur_e = e; else { flush(); cur_s = s; cur_e = e; have = true; }
    }
    flush();
    map->fm_mapped_extents = std::min(n, map->fm_extent_count);
    if (map->fm_mapped_extents) map->fm_extents[map->fm_mapped_extents - 1].fe_flags |= 1 /*FIEMAP_EXTENT_LAST*/;
    return 0;
}

}  // namespace simfs

// simrt.cpp — seeded scheduler over real OS threads, simulated clock, interposed
// pthread/clock/sleep entry points and the __tsan_* instrumentation entry points.
// This file is compiled WITHOUT -fsanitize=thread (it must not re-enter itself).
#include "simrt.h"
#include <pthread.h>
#include <dlfcn.h>
#include <errno.h>
#include <stdio.h>
#include <stdlib.h>
#include <string.h>
#include <unistd.h>
#include <time.h>
#include <sys/time.h>
#include <sys/syscall.h>
#include <linux/futex.h>
#include <sched.h>
#include <signal.h>
#include <future>
#include <vector>
#include <string>
#include <map>
#include <algorithm>

namespace sim {

Config cfg;

// ---------------------------------------------------------------------------
// PRNG (splitmix64 seeding, xoshiro256** streams)
// ---------------------------------------------------------------------------
static inline uint64_t splitmix(uint64_t& x) {
    uint64_t z = (x += 0x9e3779b97f4a7c15ULL);
    z = (z ^ (z >> 30)) * 0xbf58476d1ce4e5b9ULL;
    z = (z ^ (z >> 27)) * 0x94d049bb133111ebULL;
    return z ^ (z >> 31);
}
struct Rng {
    uint64_t s[4];
    void seed(uint64_t x) { for (auto& v : s) v = splitmix(x); }
    static inline uint64_t rotl(uint64_t x, int k) { return (x << k) | (x >> (64 - k)); }
    inline uint64_t next() {
        uint64_t r = rotl(s[1] * 5, 7) * 9, t = s[1] << 17;
        s[2] ^= s[0]; s[3] ^= s[1]; s[1] ^= s[2]; s[0] ^= s[3]; s[2] ^= t; s[3] = rotl(s[3], 45);
        return r;
    }
    inline uint64_t below(uint64_t n) { return n ? next() % n : 0; }
};

// ---------------------------------------------------------------------------
// tasks
// ---------------------------------------------------------------------------
enum { T_RUN = 0, T_BLOCKED = 1, T_SPIN = 2, T_DEAD = 3 };
enum Kind { K_PLAIN = 0, K_ATOMIC = 1, K_YIELD = 2, K_SYNC = 3 };

struct Task {
    int id = 0;
    pthread_t th{};
    int fut = 0;
    int st = T_RUN;
    const void* wobj = nullptr;
    uint64_t deadline = 0;
    bool timed_out = false;
    int nosched = 0;
    uint64_t prio = 0;
    void* (*fn)(void*) = nullptr;
    void* arg = nullptr;
    void* ret = nullptr;
    bool detached = false, joined = false;
    pid_t tid = 0;
    const volatile void* spin_addr = nullptr;
    uint64_t spin_val = 0;
    int spin_cnt = 0;
    uint64_t spin_since = 0;
    uint64_t streak = 0;
    int in_guard = 0;
};

static const int MAXT = 128;
struct Global {
    bool active = false;
    Task* tasks[MAXT];
    int ntasks = 0;
    Task* cur = nullptr;
    uint64_t steps = 0, switches = 0, now = 0;
    uint64_t next_deadline = ~0ULL;
    Rng srng, wrng, frng;
    uint64_t hash = 1469598103934665603ULL;
    int nspin = 0;
    uint64_t progress = 0, last_unspin_progress = 0, unspin_quantum = 1000;
    uint64_t prio_low = 1ULL << 32;
    std::vector<uint64_t> pct_points;
    std::vector<uint64_t> stall_points;
    // trace
    bool record = false;
    std::vector<uint32_t> trace;       // pairs (step, task)
    const uint32_t* rp = nullptr; size_t rpn = 0, rpi = 0; bool replay = false;
    // reaper
    int reap_fut = 0; Task* reap_task = nullptr; Task* reap_succ = nullptr;
    pthread_t reaper{};
    // result
    int result_fd = 1;
    deadlock_handler on_deadlock = nullptr;
    finish_hook on_finish = nullptr;
    std::map<std::string, uint64_t> probes, faults;
    std::vector<std::string> notes;
    std::string extra;
    // poison
    struct PR { uintptr_t lo, hi; const char* what; };
    std::vector<PR> poison;
    uintptr_t p_lo = ~0UL, p_hi = 0;
    const char* poison_cls = "memory";
    uint32_t tsc_last = 0;
    uint64_t spin_time = 0, stall_time = 0;
    uint64_t floor_last_now = 0, floor_idle_steps = 0;
    bool pct_recheck = false;       // a task became runnable: under PCT the highest priority runnable task runs, so look again
    bool trace_time = false;
    const char* budget_status = "inconclusive"; const char* budget_class = "budget";
};
static Global G;
static __thread Task* self = nullptr;

static inline void fwait(int* a, int v) { syscall(SYS_futex, a, FUTEX_WAIT_PRIVATE, v, nullptr, nullptr, 0); }
static inline void fwake(int* a) { syscall(SYS_futex, a, FUTEX_WAKE_PRIVATE, 1, nullptr, nullptr, 0); }

static inline void park(Task* t) {
    while (__atomic_load_n(&t->fut, __ATOMIC_ACQUIRE) == 0) fwait(&t->fut, 0);
}

// real functions ---------------------------------------------------------------
#define REAL(name) static decltype(&::name) real_##name = nullptr
REAL(pthread_create); REAL(pthread_join); REAL(pthread_detach);
REAL(pthread_mutex_lock); REAL(pthread_mutex_trylock); REAL(pthread_mutex_unlock);
REAL(pthread_cond_wait); REAL(pthread_cond_timedwait); REAL(pthread_cond_signal); REAL(pthread_cond_broadcast);
REAL(clock_gettime); REAL(gettimeofday); REAL(nanosleep); REAL(usleep); REAL(sched_yield);
REAL(clock_nanosleep); REAL(time);
static int (*real_pthread_cond_clockwait)(pthread_cond_t*, pthread_mutex_t*, clockid_t, const struct timespec*) = nullptr;
static int (*real_pthread_once)(pthread_once_t*, void (*)(void)) = nullptr;
static int (*real_cxa_guard_acquire)(long long*) = nullptr;
static void (*real_cxa_guard_release)(long long*) = nullptr;
static void (*real_cxa_guard_abort)(long long*) = nullptr;
static bool reals_ready = false;
static void init_reals() {
    if (reals_ready) return;
#define LOADREAL(n) real_##n = (decltype(real_##n))dlsym(RTLD_NEXT, #n)
    LOADREAL(pthread_create); LOADREAL(pthread_join); LOADREAL(pthread_detach);
    LOADREAL(pthread_mutex_lock); LOADREAL(pthread_mutex_trylock); LOADREAL(pthread_mutex_unlock);
    LOADREAL(pthread_cond_wait); LOADREAL(pthread_cond_timedwait); LOADREAL(pthread_cond_signal);
    LOADREAL(pthread_cond_broadcast); LOADREAL(pthread_cond_clockwait);
    LOADREAL(clock_gettime); LOADREAL(gettimeofday); LOADREAL(nanosleep); LOADREAL(usleep);
    LOADREAL(sched_yield); LOADREAL(clock_nanosleep); LOADREAL(time); LOADREAL(pthread_once);
    real_cxa_guard_acquire = (int (*)(long long*))dlsym(RTLD_NEXT, "__cxa_guard_acquire");
    real_cxa_guard_release = (void (*)(long long*))dlsym(RTLD_NEXT, "__cxa_guard_release");
    real_cxa_guard_abort = (void (*)(long long*))dlsym(RTLD_NEXT, "__cxa_guard_abort");
    reals_ready = true;
}
struct RealsInit { RealsInit() { init_reals(); } };
static RealsInit reals_init_obj __attribute__((init_priority(101)));

static inline bool managed(Task* t) { return t && G.active && t->st != T_DEAD; }

// ---------------------------------------------------------------------------
// event hash, notes, probes
// ---------------------------------------------------------------------------
static inline void fold(uint64_t v) { G.hash = (G.hash ^ v) * 1099511628211ULL; }

void ev(uint64_t a, uint64_t b, uint64_t c) {
    fold(a); fold(b); fold(c); fold(G.steps);
}
uint64_t event_hash() { return G.hash; }

void note(const char* fmt, ...) {
    if (G.notes.size() >= 4000) return;
    char buf[512];
    int n = snprintf(buf, sizeof buf, "[%llu t%d s%llu] ", (unsigned long long)G.now, self ? self->id : -1,
                     (unsigned long long)G.steps);
    va_list ap; va_start(ap, fmt);
    vsnprintf(buf + n, sizeof buf - n, fmt, ap);
    va_end(ap);
    G.notes.emplace_back(buf);
    if (cfg.verbose) { fprintf(stderr, "%s\n", buf); }
}
void probe(const char* name, uint64_t n) { G.probes[name] += n; }
void fault_fired(const char* kind, uint64_t n) { G.faults[kind] += n; }
void extra_json(const char* key, const char* json_value) {
    G.extra += ",\""; G.extra += key; G.extra += "\":"; G.extra += json_value;
}

static std::string jesc(const std::string& s) {
    std::string o;
    for (unsigned char c : s) {
        if (c == '"' || c == '\\') { o += '\\'; o += c; }
        else if (c < 0x20) { char b[8]; snprintf(b, sizeof b, "\\u%04x", c); o += b; }
        else o += c;
    }
    return o;
}

void set_result_fd(int fd) { G.result_fd = fd; }
void set_deadlock_handler(deadlock_handler h) { G.on_deadlock = h; }
void set_budget_verdict(const char* status, const char* cls) { G.budget_status = status; G.budget_class = cls; }
static char g_ctx_tag[200];
void set_context_tag(const char* tag) { snprintf(g_ctx_tag, sizeof g_ctx_tag, "%s", tag); }
const char* context_tag() { return g_ctx_tag; }
void set_finish_hook(finish_hook h) { G.on_finish = h; }
void set_record_trace(bool on) { G.record = on; }
void set_replay_trace(const uint32_t* pairs, size_t n) { G.rp = pairs; G.rpn = n; G.rpi = 0; G.replay = true; }

static bool finishing = false;
void finish(const char* status, const char* cls, const char* fmt, ...) {
    if (self) self->nosched += 1000;
    if (finishing) _exit(3);
    finishing = true;
    char msg[1024];
    va_list ap; va_start(ap, fmt);
    vsnprintf(msg, sizeof msg, fmt, ap);
    va_end(ap);
    if (G.on_finish) G.on_finish(status);
    std::string o = "{";
    char b[256];
    snprintf(b, sizeof b, "\"seed\":%llu,\"status\":\"%s\",\"class\":\"%s\",", (unsigned long long)cfg.seed, status, cls);
    o += b;
    o += "\"msg\":\"" + jesc(msg) + (g_ctx_tag[0] && strcmp(status, "ok") ? jesc(std::string(" ") + g_ctx_tag) : std::string()) + "\",";
    snprintf(b, sizeof b, "\"steps\":%llu,\"switches\":%llu,\"sim_ns\":%llu,\"hash\":\"%016llx\",\"tasks\":%d,",
             (unsigned long long)G.steps, (unsigned long long)G.switches, (unsigned long long)G.now,
             (unsigned long long)G.hash, G.ntasks);
    o += b;
    snprintf(b, sizeof b, "\"cfg\":{\"strategy\":%d,\"p_atomic\":%u,\"p_plain\":%u,\"cpu_cost_ns\":%u,\"tsc_gran_us\":%u,\"tsc_stale\":%u,\"stalls\":%u,\"pct_depth\":%u,\"spurious\":%u},",
             cfg.strategy, cfg.p_atomic_q16, cfg.p_plain_q16, cfg.cpu_cost_ns, cfg.tsc_gran_us, cfg.tsc_stale_q16, cfg.n_stalls, cfg.pct_depth, cfg.spurious_q16);
    o += b;
    o += "\"probes\":{";
    bool first = true;
    for (auto& kv : G.probes) { snprintf(b, sizeof b, "%s\"%s\":%llu", first ? "" : ",", kv.first.c_str(), (unsigned long long)kv.second); o += b; first = false; }
    o += "},\"faults\":{";
    first = true;
    for (auto& kv : G.faults) { snprintf(b, sizeof b, "%s\"%s\":%llu", first ? "" : ",", kv.first.c_str(), (unsigned long long)kv.second); o += b; first = false; }
    o += "}";
    o += G.extra;
    bool want_notes = cfg.verbose || strcmp(status, "ok") != 0 || getenv("SIM_NOTES");
    if (want_notes) {
        o += ",\"notes\":[";
        size_t n = G.notes.size(), start = n > 300 ? n - 300 : 0;
        for (size_t i = start; i < n; i++) { if (i > start) o += ","; o += "\"" + jesc(G.notes[i]) + "\""; }
        o += "]";
    }
    if (G.record) {
        o += ",\"trace\":[";
        for (size_t i = 0; i < G.trace.size(); i++) { snprintf(b, sizeof b, "%s%u", i ? "," : "", G.trace[i]); o += b; }
        o += "]";
    }
    o += "}\n";
    size_t off = 0;
    while (off < o.size()) {
        ssize_t w = write(G.result_fd, o.data() + off, o.size() - off);
        if (w <= 0) break;
        off += w;
    }
    _exit(0);
}

// ---------------------------------------------------------------------------
// poison map
// ---------------------------------------------------------------------------
void set_poison_property(const char* cls) { G.poison_cls = cls; }
static void poison_rebound() {
    G.p_lo = ~0UL; G.p_hi = 0;
    for (auto& r : G.poison) { if (r.lo < G.p_lo) G.p_lo = r.lo; if (r.hi > G.p_hi) G.p_hi = r.hi; }
}
void poison(const void* p, size_t n, const char* what) {
    if (!n) return;
    uintptr_t lo = (uintptr_t)p;
    G.poison.push_back({lo, lo + n, what});
    poison_rebound();
}
void unpoison(const void* p, size_t n) {
    uintptr_t lo = (uintptr_t)p, hi = lo + n;
    std::vector<Global::PR> out;
    for (auto& r : G.poison) {
        if (r.hi <= lo || r.lo >= hi) { out.push_back(r); continue; }
        if (r.lo < lo) out.push_back({r.lo, lo, r.what});
        if (r.hi > hi) out.push_back({hi, r.hi, r.what});
    }
    G.poison.swap(out);
    poison_rebound();
}
void poison_check(const void* p, size_t n, bool is_write) {
    uintptr_t lo = (uintptr_t)p, hi = lo + n;
    if (hi <= G.p_lo || lo >= G.p_hi) return;
    if (self && self->nosched) return;   // harness / simulator internals
    for (auto& r : G.poison)
        if (lo < r.hi && hi > r.lo)
            finish("viol", G.poison_cls, "%s of %zu bytes at %p inside poisoned region '%s' [%p,%p)",
                   is_write ? "write" : "read", n, p, r.what, (void*)r.lo, (void*)r.hi);
}

// ---------------------------------------------------------------------------
// clock
// ---------------------------------------------------------------------------
uint64_t now_ns() { return G.now; }
uint64_t perturbed_ns() { return G.spin_time + G.stall_time; }
uint64_t steps() { return G.steps; }
uint64_t switches() { return G.switches; }
bool active() { return G.active; }
int task_id() { return self ? self->id : -1; }
int task_count() { return G.ntasks; }

static void recompute_deadline() {
    uint64_t m = ~0ULL;
    for (int i = 0; i < G.ntasks; i++) {
        Task* t = G.tasks[i];
        if ((t->st == T_BLOCKED) && t->deadline && t->deadline < m) m = t->deadline;
    }
    G.next_deadline = m;
}
static void fire_timers() {
    bool any = false;
    for (int i = 0; i < G.ntasks; i++) {
        Task* t = G.tasks[i];
        if (t->st == T_BLOCKED && t->deadline && t->deadline <= G.now) {
            t->st = T_RUN; t->timed_out = true; t->deadline = 0; any = true;
        }
    }
    if (any) G.pct_recheck = true;
    recompute_deadline();
}
void advance_ns(uint64_t ns) {
    G.now += ns;
    if (G.next_deadline <= G.now) fire_timers();
}

// ---------------------------------------------------------------------------
// randomness
// ---------------------------------------------------------------------------
uint64_t rnd() { return G.wrng.next(); }
uint64_t rnd(uint64_t n) { return G.wrng.below(n); }
bool chance(uint32_t num, uint32_t den) { return G.wrng.below(den) < num; }
uint64_t frnd() { return G.frng.next(); }
uint64_t frnd(uint64_t n) { return G.frng.below(n); }

void configure_from_seed(uint64_t seed) {
    cfg.seed = seed;
    uint64_t x = seed ^ 0x5eedc0ffee123457ULL;
    Rng c; c.seed(splitmix(x));
    G.srng.seed(splitmix(x)); G.wrng.seed(splitmix(x)); G.frng.seed(splitmix(x));
    static const uint32_t pa[] = {65536 / 2, 65536 / 4, 65536 / 8, 65536 / 16, 65536 / 32, 65536 / 64, 65536 / 128, 65536 / 256};
    static const uint32_t pp[] = {0, 0, 65536 / 64, 65536 / 256, 65536 / 512, 65536 / 1024, 65536 / 32, 65536 / 128};
    static const uint32_t cc[] = {0, 10, 100, 1000, 20, 0, 300, 50};
    static const uint32_t gg[] = {1, 1, 64, 512, 1, 64, 8, 1000};
    uint64_t r = c.next();
    int s = r % 10; r /= 10;
    cfg.strategy = s < 6 ? ST_RANDOM : (s < 9 ? ST_PCT : ST_COARSE);
    cfg.p_atomic_q16 = pa[r % 8]; r /= 8;
    cfg.p_plain_q16 = pp[r % 8]; r /= 8;
    cfg.cpu_cost_ns = cc[r % 8]; r /= 8;
    cfg.tsc_gran_us = gg[r % 8]; r /= 8;
    cfg.tsc_stale_q16 = (r % 4 == 0) ? 65536 / 8 : 0; r /= 4;
    cfg.pct_depth = 1 + r % 4; r /= 4;
    cfg.n_stalls = (r % 4 == 0) ? 1 + (r / 4) % 2 : 0; r /= 8;
    cfg.spurious_q16 = (r % 4 == 0) ? 65536 / 32 : 0; r /= 4;
    if (cfg.strategy == ST_COARSE) { cfg.p_plain_q16 = 0; cfg.p_atomic_q16 = 65536 / 512; }
    if (const char* e = getenv("SIM_STRATEGY")) cfg.strategy = atoi(e);
    if (const char* e = getenv("SIM_P_ATOMIC")) cfg.p_atomic_q16 = atoi(e);
    if (const char* e = getenv("SIM_P_PLAIN")) cfg.p_plain_q16 = atoi(e);
    if (const char* e = getenv("SIM_CPU_COST")) cfg.cpu_cost_ns = atoi(e);
    if (const char* e = getenv("SIM_STALLS")) cfg.n_stalls = atoi(e);
    if (const char* e = getenv("SIM_VERBOSE")) cfg.verbose = atoi(e);
    if (getenv("SIM_TRACE_TIME")) G.trace_time = true;
    if (const char* e = getenv("SIM_MAX_STEPS")) cfg.max_steps = strtoull(e, nullptr, 10);
}

// ---------------------------------------------------------------------------
// scheduler core
// ---------------------------------------------------------------------------
// trace entries are pairs (step, value): value = task id (context switch), TR_STALL|ns (injected stall of the running task),
// TR_WAKE|task id (which of several waiters a wake-one picked).  An edited (minimised) trace may contain entries that no longer
// apply; they are skipped.
// TR_FORCED marks a switch made because the running task could not continue (blocked, spinning, exited) as opposed to a pre-emption
// at a scheduling point: the two are taken at different places within one step.
static const uint32_t TR_STALL = 0x80000000u, TR_WAKE = 0x40000000u, TR_FORCED = 0x20000000u;
static inline void rp_skip_stale() {
    while (G.rpi + 1 < G.rpn && G.rp[G.rpi] < (uint32_t)G.steps) G.rpi += 2;
}
static inline void record_switch(Task* to, bool forced) {
    if (G.record) { G.trace.push_back((uint32_t)G.steps); G.trace.push_back((uint32_t)to->id | (forced ? TR_FORCED : 0)); }
    fold(0x5357ULL ^ ((uint64_t)to->id << 32) ^ G.steps);
}

static void switch_to(Task* n, bool forced = false) {
    Task* t = self;
    if (n == t) return;
    G.switches++;
    record_switch(n, forced);
    // (streaks are not reset here: a task that is pre-empted again and again by a sleeper's wake-ups must still be demoted after
    //  its 6000 steps, or a spinning task of high priority starves the one it waits for)
    __atomic_store_n(&t->fut, 0, __ATOMIC_RELAXED);
    G.cur = n;
    __atomic_store_n(&n->fut, 1, __ATOMIC_RELEASE);
    fwake(&n->fut);
    park(t);
}

static inline bool eligible(Task* t) {
    if (t->st == T_RUN) return true;
    if (t->st == T_SPIN && G.steps - t->spin_since > 3000) return true;
    return false;
}

static void unspin_all() {
    for (int i = 0; i < G.ntasks; i++)
        if (G.tasks[i]->st == T_SPIN) { G.tasks[i]->st = T_RUN; G.tasks[i]->spin_cnt = 0; }
    G.nspin = 0;
}

static void default_deadlock();

// choose the next task to run among eligible ones; `exclude` may be null.
// Makes time advance if nothing is eligible.  Never returns null.
static Task* pick_next(Task* exclude, bool must_switch) {
    for (int iter = 0;; iter++) {
        Task* cand[MAXT]; int n = 0;
        for (int i = 0; i < G.ntasks; i++) {
            Task* t = G.tasks[i];
            if (t == exclude) continue;
            if (eligible(t)) cand[n++] = t;
        }
        if (n == 0) {
            if (!must_switch) return exclude;
            if (exclude && exclude->st == T_RUN && iter > 0) return exclude;
            // nothing eligible: wake spinners (with growing quantum), else jump to next timer
            if (G.nspin > 0) {
                if (G.progress == G.last_unspin_progress) { if (G.unspin_quantum < 10000000) G.unspin_quantum *= 2; }
                else G.unspin_quantum = 1000;
                G.last_unspin_progress = G.progress;
                G.now += G.unspin_quantum; G.spin_time += G.unspin_quantum;
                unspin_all();
                if (G.next_deadline <= G.now) fire_timers();
                continue;
            }
            if (G.next_deadline != ~0ULL) {
                if (G.trace_time) note("idle: clock jumps %llu -> %llu", (unsigned long long)G.now, (unsigned long long)G.next_deadline);
                if (G.next_deadline > G.now) G.now = G.next_deadline;
                fire_timers();
                continue;
            }
            if (exclude && exclude->st == T_RUN) return exclude;
            if (G.on_deadlock) G.on_deadlock();
            default_deadlock();
        }
        if (G.replay) {
            rp_skip_stale();
            if (must_switch && G.rpi + 1 < G.rpn && G.rp[G.rpi] == (uint32_t)G.steps && (G.rp[G.rpi + 1] & (TR_STALL | TR_WAKE | TR_FORCED)) == TR_FORCED) {
                uint32_t id = G.rp[G.rpi + 1] & ~TR_FORCED; G.rpi += 2;
                for (int i = 0; i < n; i++) if ((uint32_t)cand[i]->id == id) return cand[i];
            }
            return cand[0];
        }
        if (cfg.strategy == ST_PCT) {
            Task* best = cand[0];
            for (int i = 1; i < n; i++) if (cand[i]->prio > best->prio) best = cand[i];
            return best;
        }
        return cand[G.srng.below(n)];
    }
}

static void default_deadlock() {
    std::string s;
    for (int i = 0; i < G.ntasks; i++) {
        char b[96]; snprintf(b, sizeof b, " t%d:st=%d,obj=%p", G.tasks[i]->id, G.tasks[i]->st, G.tasks[i]->wobj);
        s += b;
    }
    finish("deadlock", "deadlock", "no runnable task and no timer:%s", s.c_str());
}

// Block the current task; returns true if woken by timeout.
static bool block_on(const void* obj, uint64_t deadline) {
    Task* t = self;
    if (G.trace_time) note("task %d blocks on %p until %llu", t->id, obj, (unsigned long long)deadline);
    t->st = T_BLOCKED; t->wobj = obj; t->deadline = deadline; t->timed_out = false;
    if (deadline && deadline < G.next_deadline) G.next_deadline = deadline;
    G.steps++;
    Task* n = pick_next(t, true);
    switch_to(n, true);
    t->wobj = nullptr;
    return t->timed_out;
}

static void wake_obj(const void* obj, bool one) {
    Task* cand[MAXT]; int n = 0;
    for (int i = 0; i < G.ntasks; i++) {
        Task* t = G.tasks[i];
        if (t->st == T_BLOCKED && t->wobj == obj) cand[n++] = t;
    }
    if (!n) return;
    if (one) {
        Task* t = cand[0];
        if (G.replay) {
            rp_skip_stale();
            if (G.rpi + 1 < G.rpn && G.rp[G.rpi] == (uint32_t)G.steps && (G.rp[G.rpi + 1] & TR_WAKE)) {
                uint32_t id = G.rp[G.rpi + 1] & ~TR_WAKE; G.rpi += 2;
                for (int i = 0; i < n; i++) if ((uint32_t)cand[i]->id == id) t = cand[i];
            }
        } else {
            t = cand[G.srng.below(n)];
            if (G.record && n > 1) { G.trace.push_back((uint32_t)G.steps); G.trace.push_back(TR_WAKE | (uint32_t)t->id); }
        }
        fold(0x77ULL ^ t->id);
        t->st = T_RUN; t->deadline = 0; t->timed_out = false;
    } else {
        for (int i = 0; i < n; i++) { cand[i]->st = T_RUN; cand[i]->deadline = 0; cand[i]->timed_out = false; }
    }
    G.pct_recheck = true;
    recompute_deadline();
}

static void do_stall(Task* t, uint64_t ns = 0) {
    if (!ns) ns = 1000 + G.srng.below(cfg.stall_max_ns);
    if (G.record) { G.trace.push_back((uint32_t)G.steps); G.trace.push_back(TR_STALL | (uint32_t)ns); }
    fault_fired("task_stall");
    note("stall task %d for %llu ns", t->id, (unsigned long long)ns);
    G.stall_time += ns;
    block_on(&G.stall_points, G.now + ns);
}

static inline void sched_point(Task* t, int kind) {
    G.steps++;
    t->streak++;
    if (cfg.cpu_cost_ns) G.now += cfg.cpu_cost_ns;
    else {
        // zero CPU cost: code that polls by yielding (no blocking call, no single spin word) would freeze simulated time and
        // starve every sleeper; after a long stretch without any clock movement, charge 1 us per 1024 steps (counted as perturbation)
        if (G.now != G.floor_last_now) { G.floor_last_now = G.now; G.floor_idle_steps = 0; }
        else if (++G.floor_idle_steps > 200000 && (G.floor_idle_steps & 1023) == 0) { G.now += 1000; G.spin_time += 1000; G.floor_last_now = G.now; }
    }
    if (G.next_deadline <= G.now) fire_timers();
    if (__builtin_expect(G.steps > cfg.max_steps, 0))
        finish(G.budget_status, G.budget_class, "step budget %llu exhausted", (unsigned long long)cfg.max_steps);
    if (G.replay) {
        rp_skip_stale();
        if (G.rpi + 1 < G.rpn && G.rp[G.rpi] == (uint32_t)G.steps) {
            uint32_t v = G.rp[G.rpi + 1];
            if (v & TR_STALL) {
                G.rpi += 2;
                if (G.ntasks > 1) { do_stall(t, v & ~TR_STALL); return; }
            } else if (!(v & (TR_WAKE | TR_FORCED))) {
                G.rpi += 2;
                uint32_t id = v;
                if (id < (uint32_t)G.ntasks && G.tasks[id] != t && G.tasks[id]->st != T_DEAD && G.tasks[id]->st != T_BLOCKED) {
                    if (G.tasks[id]->st == T_SPIN) { G.tasks[id]->st = T_RUN; G.nspin--; }
                    switch_to(G.tasks[id]);
                }
            }
        }
        return;
    }
    if (!G.stall_points.empty() && G.steps >= G.stall_points.back()) {
        G.stall_points.pop_back();
        if (G.ntasks > 1) { do_stall(t); return; }
    }
    if (cfg.strategy == ST_PCT) {
        if (!G.pct_points.empty() && G.steps >= G.pct_points.back()) {
            G.pct_points.pop_back();
            t->prio = --G.prio_low;
        } else if (t->streak > 6000) {
            t->prio = --G.prio_low; t->streak = 0;
        } else if (kind == K_YIELD) {
            t->prio = --G.prio_low;
        } else if (G.pct_recheck) {
            // (a woken task with a higher priority pre-empts the running one, as in the PCT scheduler proper)
        } else return;
        G.pct_recheck = false;
        Task* n = pick_next(nullptr, false);
        if (n && n != t) switch_to(n);
        return;
    }
    uint32_t p = kind == K_PLAIN ? cfg.p_plain_q16 : (kind == K_YIELD ? 65536 * 3 / 4 : cfg.p_atomic_q16);
    if (!p) return;
    if ((G.srng.next() & 0xffff) >= p) return;
    Task* n = pick_next(t, false);
    if (n != t) switch_to(n);
}

void yield_point() { Task* t = self; if (managed(t) && !t->nosched) sched_point(t, K_YIELD); }
void nosched_begin() { if (self) self->nosched++; }
void nosched_end() { if (self) self->nosched--; }

void sleep_ns(uint64_t ns) {
    Task* t = self;
    if (!managed(t)) { struct timespec ts = {(time_t)(ns / 1000000000ULL), (long)(ns % 1000000000ULL)}; real_nanosleep(&ts, nullptr); return; }
    if (ns == 0) { yield_point(); return; }
    block_on(t, G.now + ns);
}
void stall_self(uint64_t ns) { sleep_ns(ns); }

bool wait_on(const void* obj, uint64_t deadline_ns) {
    Task* t = self;
    if (!managed(t)) return false;
    return !block_on(obj, deadline_ns);
}
void wake_all(const void* obj) { wake_obj(obj, false); }

// spin handling -------------------------------------------------------------------
static inline void spin_observe(Task* t, const volatile void* a, uint64_t v) {
    if (t->spin_addr == a && t->spin_val == v) {
        if (++t->spin_cnt >= 3 && G.ntasks > 1 && !t->nosched) {
            // looks like a spin loop: hand over until somebody modifies the word
            t->spin_cnt = 0;
            t->st = T_SPIN; t->spin_since = G.steps; G.nspin++;
            Task* n = pick_next(t, true);
            if (t->st == T_SPIN) { if (n == t) { t->st = T_RUN; G.nspin--; } }
            if (n != t) switch_to(n, true);
            if (t->st == T_SPIN) { t->st = T_RUN; G.nspin--; }
        }
    } else { t->spin_addr = a; t->spin_val = v; t->spin_cnt = 0; }
}
static inline void modified(Task* t, const volatile void* a) {
    t->spin_cnt = 0; t->spin_addr = nullptr;
    G.progress++;
    if (G.nspin) {
        for (int i = 0; i < G.ntasks; i++) {
            Task* s = G.tasks[i];
            if (s->st == T_SPIN && s->spin_addr == a) { s->st = T_RUN; G.nspin--; G.pct_recheck = true; }
        }
    }
}

// ---------------------------------------------------------------------------
// start / threads
// ---------------------------------------------------------------------------
static Task* new_task() {
    if (G.ntasks >= MAXT) finish("error", "sim", "too many tasks");
    Task* t = new Task;
    t->id = G.ntasks;
    t->prio = (1ULL << 40) + G.srng.below(1ULL << 20);
    G.tasks[G.ntasks++] = t;
    return t;
}

static void* reaper_main(void*) {
    for (;;) {
        while (__atomic_load_n(&G.reap_fut, __ATOMIC_ACQUIRE) == 0) fwait(&G.reap_fut, 0);
        __atomic_store_n(&G.reap_fut, 0, __ATOMIC_RELAXED);
        Task* d = G.reap_task; Task* s = G.reap_succ;
        // wait until the kernel has really retired the thread (its TLS / pthread-key destructors are over) WITHOUT
        // joining it: a joinable thread's pthread_t must stay reserved until the program itself joins it
        pid_t pid = getpid();
        while (syscall(SYS_tgkill, pid, d->tid, 0) == 0) real_sched_yield();
        G.cur = s;
        __atomic_store_n(&s->fut, 1, __ATOMIC_RELEASE);
        fwake(&s->fut);
    }
    return nullptr;
}

void start() {
    init_reals();
    Task* t = new_task();
    t->th = pthread_self();
    t->fut = 1;
    self = t;
    G.cur = t;
    if (!G.replay) {
        if (cfg.strategy == ST_PCT) {
            for (uint32_t i = 0; i + 1 < cfg.pct_depth + 1; i++) G.pct_points.push_back(1 + G.srng.below(cfg.pct_len));
            std::sort(G.pct_points.begin(), G.pct_points.end(), [](uint64_t a, uint64_t b) { return a > b; });
        }
        for (uint32_t i = 0; i < cfg.n_stalls; i++) G.stall_points.push_back(1 + G.srng.below(cfg.stall_horizon));
        std::sort(G.stall_points.begin(), G.stall_points.end(), [](uint64_t a, uint64_t b) { return a > b; });
    }
    real_pthread_create(&G.reaper, nullptr, reaper_main, nullptr);
    G.now = 1000000;   // 1 ms
    G.active = true;
}

static void* trampoline(void* a) {
    Task* t = (Task*)a;
    self = t;
    t->tid = (pid_t)syscall(SYS_gettid);
    park(t);
    void* r = t->fn(t->arg);
    // exit protocol: keep the baton until the kernel has really retired this thread
    t->nosched += 1000;
    t->ret = r;
    t->st = T_DEAD;
    wake_obj(t, false);
    G.steps++;
    Task* n = pick_next(t, true);
    record_switch(n, true);
    G.switches++;
    G.reap_task = t; G.reap_succ = n;
    __atomic_store_n(&G.reap_fut, 1, __ATOMIC_RELEASE);
    fwake(&G.reap_fut);
    return r;
}

static Task* find_task(pthread_t th) {
    // pthread_t values are reused once a thread has been reaped: the most recent task with this id is the live one
    for (int i = G.ntasks - 1; i >= 0; i--) if (!G.tasks[i]->joined && pthread_equal(G.tasks[i]->th, th)) return G.tasks[i];
    return nullptr;
}

// sim-time offsets of the clocks
static const uint64_t OFF_REALTIME = 1700000000ULL * 1000000000ULL;
static const uint64_t OFF_MONO = 1000ULL * 1000000000ULL;
static inline uint64_t clock_off(clockid_t c) { return (c == CLOCK_REALTIME || c == CLOCK_REALTIME_COARSE) ? OFF_REALTIME : OFF_MONO; }
static inline uint64_t abs_to_sim(clockid_t c, const struct timespec* ts) {
    uint64_t v = (uint64_t)ts->tv_sec * 1000000000ULL + ts->tv_nsec, off = clock_off(c);
    uint64_t d = v > off ? v - off : 0;
    return d ? d : 1;
}

}  // namespace sim

using namespace sim;

// ===========================================================================
// interposed libc / libpthread entry points
// ===========================================================================
extern "C" {

uint32_t photon_verif_rdtsc() {
    if (!G.active) return 0;
    uint32_t v = (uint32_t)(G.now / 1000 / (cfg.tsc_gran_us ? cfg.tsc_gran_us : 1));
    // buggify: report "unchanged" once more, but only while the true epoch is exactly one ahead —
    // a real TSC sampled with granularity G can lag by less than one further epoch, never by more
    if (cfg.tsc_stale_q16 && v == G.tsc_last + 1 && (G.frng.next() & 0xffff) < cfg.tsc_stale_q16) {
        fault_fired("tsc_stale");
        return G.tsc_last;
    }
    G.tsc_last = v;
    return v;
}

int pthread_create(pthread_t* th, const pthread_attr_t* attr, void* (*fn)(void*), void* arg) {
    init_reals();
    Task* t = self;
    if (!managed(t)) return real_pthread_create(th, attr, fn, arg);
    Task* n = new_task();
    n->fn = fn; n->arg = arg; n->st = T_RUN; n->fut = 0;
    pthread_attr_t a2; bool own = false;
    if (attr) {
        int ds = 0; pthread_attr_getdetachstate(attr, &ds);
        if (ds == PTHREAD_CREATE_DETACHED) {
            n->detached = true;
            size_t ss = 0; pthread_attr_getstacksize(attr, &ss);
            pthread_attr_init(&a2); if (ss) pthread_attr_setstacksize(&a2, ss); own = true;
        }
    }
    int r = real_pthread_create(&n->th, own ? &a2 : attr, trampoline, n);
    if (own) pthread_attr_destroy(&a2);
    if (r) finish("error", "sim", "real pthread_create failed %d", r);
    *th = n->th;
    ev(0xC0EA7E, n->id);
    if (!t->nosched) sched_point(t, K_SYNC);
    return 0;
}

int pthread_join(pthread_t th, void** ret) {
    init_reals();
    Task* t = self;
    Task* d = G.active ? find_task(th) : nullptr;
    if (!managed(t) || !d) return real_pthread_join(th, ret);
    while (d->st != T_DEAD) block_on(d, 0);
    if (ret) *ret = d->ret;
    d->joined = true;
    real_pthread_join(th, nullptr);      // already dead: returns at once, releases the pthread_t
    return 0;
}

int pthread_detach(pthread_t th) {
    init_reals();
    Task* d = G.active ? find_task(th) : nullptr;
    if (!d) return real_pthread_detach(th);
    d->detached = true; d->joined = true;
    return real_pthread_detach(th);
}

// --- mutex: state kept in the pthread_mutex_t itself (lock word, owner, count) -----
static inline int mkind(pthread_mutex_t* m) { return m->__data.__kind & 3; }

int pthread_mutex_lock(pthread_mutex_t* m) {
    Task* t = self;
    if (!managed(t)) {
        if (G.active && t && t->st == T_DEAD) { m->__data.__lock = 1; m->__data.__owner = t->id + 1; return 0; }
        init_reals(); return real_pthread_mutex_lock(m);
    }
    if (!t->nosched) sched_point(t, K_SYNC);
    for (;;) {
        if (m->__data.__lock == 0) {
            m->__data.__lock = 1; m->__data.__owner = t->id + 1; m->__data.__count = 1;
            return 0;
        }
        if (m->__data.__owner == t->id + 1) {
            if (mkind(m) == PTHREAD_MUTEX_RECURSIVE_NP) { m->__data.__count++; return 0; }
            finish("error", "sim", "self-deadlock on pthread mutex %p", (void*)m);
        }
        block_on(m, 0);
    }
}
int pthread_mutex_trylock(pthread_mutex_t* m) {
    Task* t = self;
    if (!managed(t)) { init_reals(); return real_pthread_mutex_trylock(m); }
    if (!t->nosched) sched_point(t, K_SYNC);
    if (m->__data.__lock == 0) { m->__data.__lock = 1; m->__data.__owner = t->id + 1; m->__data.__count = 1; return 0; }
    if (m->__data.__owner == t->id + 1 && mkind(m) == PTHREAD_MUTEX_RECURSIVE_NP) { m->__data.__count++; return 0; }
    return EBUSY;
}
int pthread_mutex_unlock(pthread_mutex_t* m) {
    Task* t = self;
    if (!managed(t)) {
        if (G.active && t && t->st == T_DEAD) { m->__data.__lock = 0; m->__data.__owner = 0; return 0; }
        init_reals(); return real_pthread_mutex_unlock(m);
    }
    if (m->__data.__count > 1) { m->__data.__count--; return 0; }
    m->__data.__lock = 0; m->__data.__owner = 0; m->__data.__count = 0;
    wake_obj(m, false);
    if (!t->nosched) sched_point(t, K_SYNC);
    return 0;
}

static int cond_wait_common(pthread_cond_t* c, pthread_mutex_t* m, uint64_t deadline) {
    Task* t = self;
    if (cfg.spurious_q16 && (G.frng.next() & 0xffff) < cfg.spurious_q16) {
        fault_fired("spurious_cond_wakeup");
        pthread_mutex_unlock(m);
        pthread_mutex_lock(m);
        return 0;
    }
    // release the mutex and become a waiter atomically (we hold the baton)
    unsigned cnt = m->__data.__count;
    m->__data.__lock = 0; m->__data.__owner = 0; m->__data.__count = 0;
    wake_obj(m, false);
    bool to = block_on(c, deadline);
    t->nosched++;
    pthread_mutex_lock(m);
    t->nosched--;
    m->__data.__count = cnt;
    return to ? ETIMEDOUT : 0;
}
int pthread_cond_wait(pthread_cond_t* c, pthread_mutex_t* m) {
    if (!managed(self)) { init_reals(); return real_pthread_cond_wait(c, m); }
    return cond_wait_common(c, m, 0);
}
int pthread_cond_timedwait(pthread_cond_t* c, pthread_mutex_t* m, const struct timespec* ts) {
    if (!managed(self)) { init_reals(); return real_pthread_cond_timedwait(c, m, ts); }
    return cond_wait_common(c, m, abs_to_sim(CLOCK_REALTIME, ts));
}
int pthread_cond_clockwait(pthread_cond_t* c, pthread_mutex_t* m, clockid_t clk, const struct timespec* ts) {
    if (!managed(self)) { init_reals(); return real_pthread_cond_clockwait(c, m, clk, ts); }
    return cond_wait_common(c, m, abs_to_sim(clk, ts));
}
int pthread_cond_signal(pthread_cond_t* c) {
    Task* t = self;
    if (!managed(t)) { if (G.active && t) { wake_obj(c, true); return 0; } init_reals(); return real_pthread_cond_signal(c); }
    if (!t->nosched) sched_point(t, K_SYNC);
    wake_obj(c, true);
    return 0;
}
int pthread_cond_broadcast(pthread_cond_t* c) {
    Task* t = self;
    if (!managed(t)) { if (G.active && t) { wake_obj(c, false); return 0; } init_reals(); return real_pthread_cond_broadcast(c); }
    if (!t->nosched) sched_point(t, K_SYNC);
    wake_obj(c, false);
    return 0;
}

int pthread_once(pthread_once_t* o, void (*f)(void)) {
    init_reals();
    Task* t = self;
    if (t) t->nosched++;
    int r = real_pthread_once(o, f);
    if (t) t->nosched--;
    return r;
}

int __cxa_guard_acquire(long long* g) {
    init_reals();
    int r = real_cxa_guard_acquire(g);
    if (r && self) { self->nosched++; self->in_guard++; }
    return r;
}
void __cxa_guard_release(long long* g) {
    init_reals();
    real_cxa_guard_release(g);
    if (self && self->in_guard) { self->nosched--; self->in_guard--; }
}
void __cxa_guard_abort(long long* g) {
    init_reals();
    real_cxa_guard_abort(g);
    if (self && self->in_guard) { self->nosched--; self->in_guard--; }
}

// --- time ---------------------------------------------------------------------
int clock_gettime(clockid_t c, struct timespec* ts) {
    if (!G.active || c == CLOCK_PROCESS_CPUTIME_ID || c == CLOCK_THREAD_CPUTIME_ID) { init_reals(); return real_clock_gettime(c, ts); }
    uint64_t v = clock_off(c) + G.now;
    ts->tv_sec = v / 1000000000ULL; ts->tv_nsec = v % 1000000000ULL;
    return 0;
}
int gettimeofday(struct timeval* tv, void* tz) {
    if (!G.active) { init_reals(); return real_gettimeofday(tv, (struct timezone*)tz); }
    uint64_t v = OFF_REALTIME + G.now;
    if (tv) { tv->tv_sec = v / 1000000000ULL; tv->tv_usec = (v % 1000000000ULL) / 1000; }
    return 0;
}
time_t time(time_t* p) {
    if (!G.active) { init_reals(); return real_time(p); }
    time_t v = (OFF_REALTIME + G.now) / 1000000000ULL;
    if (p) *p = v;
    return v;
}
int nanosleep(const struct timespec* req, struct timespec* rem) {
    if (!managed(self)) { init_reals(); return real_nanosleep(req, rem); }
    sim::sleep_ns((uint64_t)req->tv_sec * 1000000000ULL + req->tv_nsec);
    if (rem) { rem->tv_sec = 0; rem->tv_nsec = 0; }
    return 0;
}
int clock_nanosleep(clockid_t c, int flags, const struct timespec* req, struct timespec* rem) {
    if (!managed(self)) { init_reals(); return real_clock_nanosleep(c, flags, req, rem); }
    if (flags & TIMER_ABSTIME) {
        uint64_t d = abs_to_sim(c, req);
        if (d > G.now) sim::sleep_ns(d - G.now);
    } else sim::sleep_ns((uint64_t)req->tv_sec * 1000000000ULL + req->tv_nsec);
    return 0;
}
int usleep(useconds_t us) {
    if (!managed(self)) { init_reals(); return real_usleep(us); }
    sim::sleep_ns((uint64_t)us * 1000);
    return 0;
}
int sched_yield(void) {
    Task* t = self;
    if (!managed(t)) { init_reals(); return real_sched_yield(); }
    if (!t->nosched) sched_point(t, K_YIELD);
    return 0;
}

}  // extern "C"

// libstdc++ futex used by std::promise / std::future -------------------------------------
namespace std {
bool __atomic_futex_unsigned_base::_M_futex_wait_until(unsigned* addr, unsigned val, bool has_timeout,
                                                       chrono::seconds s, chrono::nanoseconds ns) {
    Task* t = self;
    if (!managed(t)) {
        // real fallback: plain futex wait
        if (!has_timeout) { syscall(SYS_futex, addr, FUTEX_WAIT, val, nullptr); return true; }
        struct timespec rt; rt.tv_sec = 0; rt.tv_nsec = 1000000;
        syscall(SYS_futex, addr, FUTEX_WAIT, val, &rt);
        return true;
    }
    uint64_t deadline = 0;
    if (has_timeout) {
        uint64_t v = (uint64_t)s.count() * 1000000000ULL + ns.count();
        deadline = v > OFF_REALTIME ? v - OFF_REALTIME : 1;
    }
    if (!t->nosched) sched_point(t, K_SYNC);
    if (__atomic_load_n(addr, __ATOMIC_SEQ_CST) != val) return true;
    bool to = block_on(addr, deadline);
    return !to;
}
bool __atomic_futex_unsigned_base::_M_futex_wait_until_steady(unsigned* addr, unsigned val, bool has_timeout,
                                                              chrono::seconds s, chrono::nanoseconds ns) {
    Task* t = self;
    if (!managed(t)) {
        if (!has_timeout) { syscall(SYS_futex, addr, FUTEX_WAIT, val, nullptr); return true; }
        struct timespec rt; rt.tv_sec = 0; rt.tv_nsec = 1000000;
        syscall(SYS_futex, addr, FUTEX_WAIT, val, &rt);
        return true;
    }
    uint64_t deadline = 0;
    if (has_timeout) {
        uint64_t v = (uint64_t)s.count() * 1000000000ULL + ns.count();
        deadline = v > OFF_MONO ? v - OFF_MONO : 1;
    }
    if (!t->nosched) sched_point(t, K_SYNC);
    if (__atomic_load_n(addr, __ATOMIC_SEQ_CST) != val) return true;
    bool to = block_on(addr, deadline);
    return !to;
}
void __atomic_futex_unsigned_base::_M_futex_notify_all(unsigned* addr) {
    Task* t = self;
    if (!G.active || !t) { syscall(SYS_futex, addr, FUTEX_WAKE, 0x7fffffff); return; }
    wake_obj(addr, false);
}
}  // namespace std

// ===========================================================================
// __tsan_* entry points: every instrumented access is a scheduling point
// ===========================================================================
static inline Task* pre(int kind, const volatile void* a = nullptr, size_t n = 0) {
    Task* t = self;
    if (!t || t->nosched || !G.active || t->st == T_DEAD) return nullptr;
    if (G.p_hi && a) poison_check((const void*)a, n, true);
    sched_point(t, kind);
    return t;
}
static inline void plain(const void* a, size_t n, bool w) {
    Task* t = self;
    if (!t || t->nosched || !G.active || t->st == T_DEAD) return;
    if (G.p_hi) poison_check(a, n, w);
    sched_point(t, K_PLAIN);
}

extern "C" {
void __tsan_init() {}
void __tsan_func_entry(void*) {}
void __tsan_func_exit() {}
#define PLAINRW(N) \
    void __tsan_read##N(void* a) { plain(a, N, false); } \
    void __tsan_write##N(void* a) { plain(a, N, true); } \
    void __tsan_unaligned_read##N(void* a) { plain(a, N, false); } \
    void __tsan_unaligned_write##N(void* a) { plain(a, N, true); } \
    void __tsan_volatile_read##N(void* a) { plain(a, N, false); } \
    void __tsan_volatile_write##N(void* a) { plain(a, N, true); } \
    void __tsan_unaligned_volatile_read##N(void* a) { plain(a, N, false); } \
    void __tsan_unaligned_volatile_write##N(void* a) { plain(a, N, true); } \
    void __tsan_read##N##_pc(void* a, void*) { plain(a, N, false); } \
    void __tsan_write##N##_pc(void* a, void*) { plain(a, N, true); }
PLAINRW(1) PLAINRW(2) PLAINRW(4) PLAINRW(8) PLAINRW(16)
void __tsan_read_range(void* a, unsigned long n) { plain(a, n, false); }
void __tsan_write_range(void* a, unsigned long n) { plain(a, n, true); }
void __tsan_read_range_pc(void* a, unsigned long n, void*) { plain(a, n, false); }
void __tsan_write_range_pc(void* a, unsigned long n, void*) { plain(a, n, true); }
void __tsan_vptr_update(void** a, void*) { plain(a, 8, true); }
void __tsan_vptr_read(void** a) { plain(a, 8, false); }
void* __tsan_memcpy(void* d, const void* s, size_t n) { plain(s, n, false); plain(d, n, true); return memcpy(d, s, n); }
void* __tsan_memmove(void* d, const void* s, size_t n) { plain(s, n, false); plain(d, n, true); return memmove(d, s, n); }
void* __tsan_memset(void* d, int c, size_t n) { plain(d, n, true); return memset(d, c, n); }

#define ATOMICS(N, T) \
    T __tsan_atomic##N##_load(const volatile T* a, int) { Task* t = pre(K_ATOMIC, a, sizeof(T)); T v = __atomic_load_n(a, __ATOMIC_SEQ_CST); if (t) spin_observe(t, a, (uint64_t)v); return v; } \
    void __tsan_atomic##N##_store(volatile T* a, T v, int) { Task* t = pre(K_ATOMIC, a, sizeof(T)); T o = __atomic_exchange_n(a, v, __ATOMIC_SEQ_CST); if (t && o != v) modified(t, a); } \
    T __tsan_atomic##N##_exchange(volatile T* a, T v, int) { Task* t = pre(K_ATOMIC, a, sizeof(T)); T o = __atomic_exchange_n(a, v, __ATOMIC_SEQ_CST); if (t) { if (o != v) modified(t, a); else spin_observe(t, a, (uint64_t)o); } return o; } \
    T __tsan_atomic##N##_fetch_add(volatile T* a, T v, int) { Task* t = pre(K_ATOMIC, a, sizeof(T)); T o = __atomic_fetch_add(a, v, __ATOMIC_SEQ_CST); if (t && v) modified(t, a); return o; } \
    T __tsan_atomic##N##_fetch_sub(volatile T* a, T v, int) { Task* t = pre(K_ATOMIC, a, sizeof(T)); T o = __atomic_fetch_sub(a, v, __ATOMIC_SEQ_CST); if (t && v) modified(t, a); return o; } \
    T __tsan_atomic##N##_fetch_and(volatile T* a, T v, int) { Task* t = pre(K_ATOMIC, a, sizeof(T)); T o = __atomic_fetch_and(a, v, __ATOMIC_SEQ_CST); if (t && (T)(o & v) != o) modified(t, a); return o; } \
    T __tsan_atomic##N##_fetch_or(volatile T* a, T v, int) { Task* t = pre(K_ATOMIC, a, sizeof(T)); T o = __atomic_fetch_or(a, v, __ATOMIC_SEQ_CST); if (t && (T)(o | v) != o) modified(t, a); return o; } \
    T __tsan_atomic##N##_fetch_xor(volatile T* a, T v, int) { Task* t = pre(K_ATOMIC, a, sizeof(T)); T o = __atomic_fetch_xor(a, v, __ATOMIC_SEQ_CST); if (t && v) modified(t, a); return o; } \
    T __tsan_atomic##N##_fetch_nand(volatile T* a, T v, int) { Task* t = pre(K_ATOMIC, a, sizeof(T)); T o = __atomic_fetch_nand(a, v, __ATOMIC_SEQ_CST); if (t) modified(t, a); return o; } \
    int __tsan_atomic##N##_compare_exchange_strong(volatile T* a, T* c, T v, int, int) { Task* t = pre(K_ATOMIC, a, sizeof(T)); T e = *c; bool ok = __atomic_compare_exchange_n(a, c, v, false, __ATOMIC_SEQ_CST, __ATOMIC_SEQ_CST); if (t) { if (ok) { if (e != v) modified(t, a); } else spin_observe(t, a, (uint64_t)*c); } return ok; } \
    int __tsan_atomic##N##_compare_exchange_weak(volatile T* a, T* c, T v, int, int) { Task* t = pre(K_ATOMIC, a, sizeof(T)); T e = *c; bool ok = __atomic_compare_exchange_n(a, c, v, false, __ATOMIC_SEQ_CST, __ATOMIC_SEQ_CST); if (t) { if (ok) { if (e != v) modified(t, a); } else spin_observe(t, a, (uint64_t)*c); } return ok; } \
    T __tsan_atomic##N##_compare_exchange_val(volatile T* a, T c, T v, int, int) { Task* t = pre(K_ATOMIC, a, sizeof(T)); T e = c; bool ok = __atomic_compare_exchange_n(a, &c, v, false, __ATOMIC_SEQ_CST, __ATOMIC_SEQ_CST); if (t) { if (ok) { if (e != v) modified(t, a); } else spin_observe(t, a, (uint64_t)c); } return c; }
ATOMICS(8, uint8_t) ATOMICS(16, uint16_t) ATOMICS(32, uint32_t) ATOMICS(64, uint64_t)
void __tsan_atomic_thread_fence(int) { pre(K_ATOMIC); __atomic_thread_fence(__ATOMIC_SEQ_CST); }
void __tsan_atomic_signal_fence(int) {}
}  // extern "C"

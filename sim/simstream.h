// SimStream — in-memory duplex byte pipe implementing photon::net::ISocketStream.
// Blocking is done with photon primitives on simulated time; a per-direction "wire script"
// decides segmentation, delays, EOF / reset at a byte offset.  Header-only (instrumented with the harness).
#pragma once
#include <photon/net/socket.h>
#include <photon/thread/thread.h>
#include <photon/common/timeout.h>
#include <deque>
#include <algorithm>
#include <vector>
#include <string>
#include <errno.h>
#include <string.h>
#include "simrt.h"

namespace simstream {

// One direction of the pipe.
struct Wire {
    std::string buf;                 // bytes written by the producer, not yet delivered/read
    size_t read_off = 0;             // consumer position in buf
    uint64_t total_written = 0, total_read = 0;
    bool eof = false;                // producer closed / shut down its writing side
    int reset_errno = 0;             // connection reset: every later read/write fails with this errno
    uint64_t reset_at = ~0ULL;       // reset after this many bytes have been read by the consumer
    uint64_t eof_at = ~0ULL;         // truncate: deliver EOF after this many bytes whatever was written
    // segmentation script: each recv returns at most the next segment size (cycled); 0 entries = unlimited
    std::vector<uint32_t> seg;
    size_t seg_i = 0; uint32_t seg_left = 0;
    // delay script: before delivering segment i the reader sleeps delay_us[i % n] of simulated time
    std::vector<uint64_t> delay_us;
    size_t delay_i = 0;
    size_t capacity = ~0UL;          // writer blocks when more than this many bytes are pending
    photon::condition_variable readable, writable;
    size_t pending() const { return buf.size() - read_off; }
};

class Endpoint : public photon::net::ISocketStream {
public:
    Wire* in; Wire* out;             // in: we read from it; out: we write to it
    uint64_t tmo = -1ULL;
    bool closed = false;
    bool rd_shut = false;            // shutdown(Read): like a socket, every later read reports end of stream
    bool tmo_per_wait = false;       // the timeout bounds each wait for more bytes (as in layered streams, e.g. TLS over a socket), not the whole call
    uint64_t n_recv_calls = 0, n_send_calls = 0;
    Endpoint(Wire* i, Wire* o) : in(i), out(o) {}

    // ---- reading -------------------------------------------------------------------------------
    ssize_t do_recv(void* buf, size_t count, bool full) {
        n_recv_calls++;
        if (closed) { errno = EBADF; return -1; }
        if (rd_shut) return 0;
        photon::Timeout deadline(tmo);
        size_t got = 0;
        while (got < count) {
            if (in->reset_errno && in->total_read >= in->reset_at) { errno = in->reset_errno; return got && full ? (ssize_t)got : -1; }
            size_t limit_eof = in->eof_at > in->total_read ? (size_t)std::min<uint64_t>(in->eof_at - in->total_read, ~0UL) : 0;
            size_t avail = std::min(in->pending(), limit_eof);
            if (in->reset_errno) avail = std::min<size_t>(avail, in->reset_at > in->total_read ? in->reset_at - in->total_read : 0);
            if (avail == 0) {
                if (limit_eof == 0 || in->eof) break;                      // end of stream
                if (in->reset_errno && in->total_read >= in->reset_at) continue;
                if (got && !full) break;
                if (tmo_per_wait) deadline = photon::Timeout(tmo);
                int r = in->readable.wait_no_lock(deadline);
                if (rd_shut) break;
                if (r < 0 && errno == ETIMEDOUT) { if (got) break; return -1; }
                continue;
            }
            if (in->seg_left == 0) {
                // a new segment "arrives": optional delivery delay, then its size
                if (!in->delay_us.empty()) {
                    uint64_t d = in->delay_us[in->delay_i++ % in->delay_us.size()];
                    if (d) {
                        if (deadline.timeout() < d) { photon::thread_usleep(deadline.timeout()); in->delay_i--; errno = ETIMEDOUT; if (got) break; return -1; }
                        photon::thread_usleep(d);
                    }
                }
                in->seg_left = in->seg.empty() ? 0xffffffff : in->seg[in->seg_i++ % in->seg.size()];
                if (in->seg_left == 0) in->seg_left = 1;
            }
            size_t n = std::min({count - got, avail, (size_t)in->seg_left});
            memcpy((char*)buf + got, in->buf.data() + in->read_off, n);
            in->read_off += n; in->total_read += n; in->seg_left -= n; got += n;
            if (in->read_off > 65536) { in->buf.erase(0, in->read_off); in->read_off = 0; }
            in->writable.notify_all();
            if (!full) break;            // recv(): at most one segment per call
            if (in->seg_left == 0 && !full) break;
        }
        return (ssize_t)got;
    }
    ssize_t recv(void* buf, size_t count, int = 0) override { return do_recv(buf, count, false); }
    ssize_t recv(const struct iovec* iov, int iovcnt, int = 0) override {
        // scatter one segment over the iovecs
        size_t total = 0; for (int i = 0; i < iovcnt; i++) total += iov[i].iov_len;
        std::string tmp(total, 0);
        ssize_t r = do_recv(&tmp[0], total, false);
        if (r <= 0) return r;
        size_t off = 0;
        for (int i = 0; i < iovcnt && off < (size_t)r; i++) { size_t n = std::min(iov[i].iov_len, (size_t)r - off); memcpy(iov[i].iov_base, tmp.data() + off, n); off += n; }
        return r;
    }
    ssize_t read(void* buf, size_t count) override { return do_recv(buf, count, true); }
    ssize_t readv(const struct iovec* iov, int iovcnt) override {
        size_t total = 0; for (int i = 0; i < iovcnt; i++) total += iov[i].iov_len;
        std::string tmp(total, 0);
        ssize_t r = do_recv(&tmp[0], total, true);
        if (r <= 0) return r;
        size_t off = 0;
        for (int i = 0; i < iovcnt && off < (size_t)r; i++) { size_t n = std::min(iov[i].iov_len, (size_t)r - off); memcpy(iov[i].iov_base, tmp.data() + off, n); off += n; }
        return r;
    }

    // ---- writing -------------------------------------------------------------------------------
    ssize_t do_send(const void* buf, size_t count, bool full) {
        n_send_calls++;
        if (closed) { errno = EBADF; return -1; }
        if (out->eof) { errno = EPIPE; return -1; }
        if (out->reset_errno && out->total_read >= out->reset_at) { errno = out->reset_errno; return -1; }
        photon::Timeout deadline(tmo);
        size_t put = 0;
        while (put < count) {
            size_t room = out->capacity > out->pending() ? out->capacity - out->pending() : 0;
            if (room == 0) {
                if (put && !full) break;
                int r = out->writable.wait_no_lock(deadline);
                if (r < 0 && errno == ETIMEDOUT) { if (put) break; return -1; }
                if (out->reset_errno && out->total_read >= out->reset_at) { errno = out->reset_errno; return put ? (ssize_t)put : -1; }
                continue;
            }
            size_t n = std::min(count - put, room);
            out->buf.append((const char*)buf + put, n);
            out->total_written += n; put += n;
            out->readable.notify_all();
            if (!full) break;
        }
        return (ssize_t)put;
    }
    ssize_t send(const void* buf, size_t count, int = 0) override { return do_send(buf, count, false); }
    ssize_t write(const void* buf, size_t count) override { return do_send(buf, count, true); }
    ssize_t flatten(const struct iovec* iov, int iovcnt, std::string& tmp) {
        for (int i = 0; i < iovcnt; i++) tmp.append((const char*)iov[i].iov_base, iov[i].iov_len);
        return tmp.size();
    }
    ssize_t send(const struct iovec* iov, int iovcnt, int = 0) override { std::string t; flatten(iov, iovcnt, t); return do_send(t.data(), t.size(), false); }
    ssize_t writev(const struct iovec* iov, int iovcnt) override { std::string t; flatten(iov, iovcnt, t); return do_send(t.data(), t.size(), true); }
    ssize_t sendfile(int, off_t, size_t) override { errno = ENOSYS; return -1; }

    int shutdown(ShutdownHow how) override {
        if (how == ShutdownHow::Write || how == ShutdownHow::ReadWrite) { out->eof = true; out->readable.notify_all(); }
        if (how == ShutdownHow::Read || how == ShutdownHow::ReadWrite) { rd_shut = true; in->readable.notify_all(); }
        return 0;
    }
    int close() override {
        if (closed) return 0;
        closed = true; out->eof = true; out->readable.notify_all(); in->writable.notify_all();
        return 0;
    }
    uint64_t timeout() const override { return tmo; }
    void timeout(uint64_t t) override { tmo = t; }
    ::Object* get_underlay_object(uint64_t) override { return nullptr; }
    int setsockopt(int, int, const void*, socklen_t) override { return 0; }
    int getsockopt(int, int, void*, socklen_t*) override { errno = ENOSYS; return -1; }
    int getsockname(photon::net::EndPoint&) override { return 0; }
    int getpeername(photon::net::EndPoint&) override { return 0; }
    int getsockname(char*, size_t) override { return 0; }
    int getpeername(char*, size_t) override { return 0; }
};

struct Pipe {
    Wire a2b, b2a;
    Endpoint a, b;               // a writes a2b / reads b2a; b the opposite
    Pipe() : a(&b2a, &a2b), b(&a2b, &b2a) {}
};

}  // namespace simstream

#!/usr/bin/env python3
"""Regenerates /verif/MANIFEST.json from harness/checks.json (one check per claimed property)."""
import json, os
V = os.path.dirname(os.path.dirname(os.path.abspath(__file__)))
checks = json.load(open(os.path.join(V, 'harness', 'checks.json')))
props = [json.loads(l) for l in open(os.path.join(V, 'properties.jsonl'))]
NA = {
 'C12': 'pure function of its input (serialize/deserialize of an in-memory iovector): no schedule, clock, I/O fault or second party appears in the statement; deterministic simulation has nothing to control (DESIGN.md section 6)',
 'C14': 'pure function of its input (iovector operations on in-memory buffers): no schedule, clock, fault or interleaving; not a simulation target (DESIGN.md section 6)',
 'C15': 'closed-form arithmetic on three integers; the honest tool is exhaustive enumeration of a bounded domain, which is a different technique (DESIGN.md section 6)',
 'C20': 'lexical function of the path string; no schedule, clock, fault or interleaving to simulate (DESIGN.md section 6)',
}
man = {
 'version': 1,
 'setup_cmd': 'tools/dst setup',
 'hooks': {
  'guard': 'PHOTON_VERIF_SIM',
  'enable': 'tools/dst compiles every /repo source it links with -DPHOTON_VERIF_SIM (and -fsanitize=thread instrumentation whose __tsan_* entry points are provided by sim/simrt.cpp, not by libtsan)',
  'baseline_off_cmd': 'cmake -G Ninja -S /repo -B /repo/_build -DPHOTON_BUILD_TESTING=ON -DCMAKE_BUILD_TYPE=RelWithDebInfo >/dev/null && cmake --build /repo/_build -j16 && ctest --test-dir /repo/_build -j8 --timeout 900',
  'source_commits': [l.split()[0] for l in os.popen("git -C /repo log --format='%h %s' d8e1eec..HEAD").read().splitlines() if 'verif hook' in l],
  'add_only': True,
 },
 'engines': [{'name': 'simrt+dst', 'path': 'sim/ tools/dst', 'serves_properties': sorted(checks),
              'kind_free_text': 'deterministic simulation: seeded scheduler over parked OS threads with a scheduling point at every instrumented memory access, simulated clock, simulated streams/files/kernel, fault injection, history oracles, ddmin over the operation/fault plan and over the recorded schedule, replay by seed and by minimised schedule'}],
 'checks': [], 'not_applicable': [],
 'notes': 'All claimed properties are decided by seeded search over schedules x fault plans x workloads (level: exploration). See DESIGN.md.',
}
for p in props:
    pid = p['id']
    if pid in checks:
        c = checks[pid]
        man['checks'].append({
         'property_id': pid,
         'quick_cmd': 'tools/dst check %s --tier quick' % pid,
         'thorough_cmd': 'tools/dst check %s --tier thorough' % pid,
         'evidence_file': 'evidence/%s.json' % pid,
         'replay_cmd_template': 'tools/dst replay {path}',
         'engine': 'simrt+dst',
         'level_claimed': {'category': 'exploration', 'text': c.get('level_text', 'seeded exploration of interleavings, timings and faults of the real code under a deterministic simulator; behavioural oracles at the public API'), 'design_ref': 'DESIGN.md section 5, ' + pid},
         'level_note': c.get('level_note', 'trusted: the simulator (sim/simrt.cpp), g++ tsan instrumentation as the source of scheduling points, sequentially consistent execution; sampling, not exhaustive'),
         'technique': c.get('technique', 'deterministic simulation with fault injection: seeded schedule/fault search, history oracle, replay'),
        })
    else:
        man['not_applicable'].append({'property_id': pid, 'reason': NA.get(pid, 'check not built yet in this round (planned, see DESIGN.md section 5); not claimed')})
json.dump(man, open(os.path.join(V, 'MANIFEST.json'), 'w'), indent=1)
print('claimed:', sorted(checks), 'not applicable:', [x['property_id'] for x in man['not_applicable']])

#!/usr/bin/env python3
"""Prints the prompt given to a fresh sub-agent that seeds a property-breaking change (nothing from /verif is disclosed)."""
import json, sys
pid, tag = sys.argv[1], sys.argv[2]
props = {json.loads(l)['id']: json.loads(l) for l in open('/verif/properties.jsonl')}
p = props[pid]
wt = '/tmp/seed-%s-%s' % (pid, tag)
print(f"""You are helping test a verification effort for the C++ library alibaba/PhotonLibOS (a stackful-coroutine runtime). Your job: write a *realistic, subtle* change to the library that BREAKS the semantic property quoted below, while the library still compiles and the repository's existing test suite still passes. Think of the kind of regression a maintainer could introduce by accident in a refactoring or an "optimisation" (a dropped lock, a re-ordered pair of statements, an off-by-one, a missing re-check after wake-up, a wrong wake-up target, a stale value used after a yield ...).

THE PROPERTY ({p['id']}: {p['title']})
Statement: {p['statement']}
Quantified over: {p['quantifier']['text']}
Why ordinary tests cannot settle it: {p['why_tests_cant']}
Code anchors (files / mechanisms the property lives in): {json.dumps(p['anchors'].get('files'))}; mechanisms: {json.dumps([m['name'] + ' @ ' + m.get('where','') for m in p['anchors'].get('mechanism', [])])}

WORKSPACE
- Create your own scratch git worktree of the repository and work ONLY there (never edit /repo itself, never look at or write to /verif):
    git -C /repo worktree add --detach {wt} HEAD
- Build there (offline; system dependencies are installed; do not try to download anything):
    cd {wt} && cmake -G Ninja -B _build -DPHOTON_BUILD_TESTING=ON -DCMAKE_BUILD_TYPE=RelWithDebInfo >/dev/null && cmake --build _build -j8
  (The reference build in /repo/_build was made this way. Build only with -j8, other jobs share the machine. A full build takes several minutes; after your change rebuild incrementally.)
- The test suite is run with: ctest --test-dir {wt}/_build -j8 --timeout 900 . Some tests fail even on the unchanged tree (network-dependent ones such as test-socket, test-ipv6, http_client get, resolver; test-checksum; test-throttle; test-iouring; test-rpc-message; client_function_test) — ignore those; every test that passes on the unchanged tree must still pass with your change. At minimum run all tests of the components you touched (e.g. ctest -R for thread/common/rpc/net/fs tests as relevant) several times, and preferably the whole suite once.

WHAT TO DELIVER — two independent changes, A and B (different mechanisms / different code sites), each of which on its own:
 1. is small (typically 1-15 changed lines) and looks plausible, compiles without new warnings-as-errors, and keeps the existing tests passing;
 2. genuinely violates the property above for some inputs / schedules / fault sequences — but NOT in a way that ordinary use exposes at once. It should need something specific to manifest: a particular interleaving of threads or vCPUs, a timeout or interrupt or fault landing at a particular point, a multi-step sequence of operations, an unusual input or configuration, or two cooperating sites that each look fine alone;
 3. comes with a demonstration: a small standalone test program (or gtest file) that fails (wrong result, assertion failure, hang detected by its own timeout, sanitizer report or crash) WITH the change and passes WITHOUT it. The demonstration may use sleeps, many iterations, carefully constructed orderings, yields, several vCPUs (std::thread + photon::init / vcpu_init) — whatever makes the defect manifest reasonably reliably. Say how often it manifests.
 Do not touch test files, build files or the property's public API signatures. Do not make the change a blatant "return wrong value always".

Write the results into {wt}/seeded/ :
   A/patch.diff   (git diff of the library change only, applicable with `git apply` at the repository root)
   A/demo.cpp     (+ A/build.sh: the exact commands that build and run it against the built library in {wt}/_build, e.g. linking _build/output/libphoton.so or libphoton.a; exit status 0 = property held, non-zero = violated)
   A/notes.json   {{"property": "{p['id']}", "summary": "...", "what_it_needs_to_manifest": "...", "tests_run": "...", "demo_fail_rate_with_change": "...", "demo_pass_without_change": true}}
   and the same under B/.
Before finishing: verify for each of A and B that (a) with only that patch applied the relevant existing tests pass, (b) the demo fails with the patch and passes on the unpatched tree. Leave the worktree with NO patch applied (git checkout -- . ; keep the seeded/ directory and the _build directory). In your final message, summarise the two changes in a few lines each.""")

// C18 — RangeLock: held ranges never overlap; waiters proceed when the conflict is gone.
#include "phx.h"
#include <photon/common/range-lock.h>
#include <map>
#include <algorithm>

using namespace photon;

void run_script(int t);

namespace {

enum { OP_LOCK, OP_PAUSE };
struct Op {
    int idx, k;
    uint64_t off = 0, len = 0;
    int how = 0;                 // 0 lock() handle, 1 try_lock_wait retry loop + unlock(off,len), 2 try_lock_wait2 retry loop
    int hold = 0; uint64_t hold_us = 0, pause_us = 0;
    bool adjust = false; uint64_t aoff = 0, alen = 0;
};

phx::World W;
RangeLock* RL;
std::vector<std::vector<Op>> scripts;
int n_ops = 0;
struct Held { uint64_t off, len; int th; };
std::map<int, Held> held;     // key: unique acquisition id
int next_acq = 0;
const uint64_t T_US[] = {1, 20, 50, 100, 150, 200, 400, 1000};

uint64_t sat_end(uint64_t o, uint64_t l) { uint64_t e = o + l; return e < o ? ~0ULL : e; }
bool overlap(uint64_t o1, uint64_t l1, uint64_t o2, uint64_t l2) {
    uint64_t e1 = sat_end(o1, l1), e2 = sat_end(o2, l2);
    if (e1 == o1 || e2 == o2) return false;          // an empty range overlaps nothing
    return o1 < e2 && o2 < e1;
}

void pick_range(uint64_t& off, uint64_t& len) {
    int r = sim::rnd(12);
    if (r == 0) { off = ~0ULL - sim::rnd(16); len = sim::rnd(3) ? ~0ULL - sim::rnd(8) : sim::rnd(40); }       // saturating at 2^64
    else if (r == 1) { off = sim::rnd(16); len = ~0ULL - sim::rnd(4); }                                      // to the top of the space
    else { off = sim::rnd(16); len = sim::rnd(7) == 0 ? 0 : 1 + sim::rnd(8); }                               // small universe, some empty
}

void gen_plan() {
    W.nvcpu = 1 + sim::rnd(3);
    int nth = 2 + sim::rnd(7);
    // one API style per run: unlock(offset,length) erases every contained range, which must not be mixed with handles
    bool handle_style = sim::rnd(3) != 0;
    scripts.resize(nth);
    for (int t = 0; t < nth; t++) {
        int n = 2 + sim::rnd(10);
        for (int i = 0; i < n; i++) {
            Op o; o.idx = n_ops++;
            if (sim::rnd(6) == 0) { o.k = OP_PAUSE; o.pause_us = sim::rnd(3) ? T_US[sim::rnd(7)] : 0; }
            else {
                o.k = OP_LOCK; pick_range(o.off, o.len); o.how = handle_style ? (sim::rnd(2) ? 0 : 2) : 1;
                o.hold = sim::rnd(3); o.hold_us = T_US[1 + sim::rnd(6)];
                if (o.how != 1 && sim::rnd(3) == 0) { o.adjust = true; pick_range(o.aoff, o.alen); if (sim::rnd(2)) { o.aoff = o.off; } }
            }
            scripts[t].push_back(o);
        }
        W.add(sim::rnd(W.nvcpu), [t](int) { run_script(t); });
    }
}

int record_acquire(int t, const Op& o, uint64_t off, uint64_t len) {
    // under NoSched
    for (auto& kv : held)
        if (overlap(off, len, kv.second.off, kv.second.len))
            HX_VIOL("overlap", "th%d acquired [%llu,+%llu) (op %d) while th%d holds the overlapping range [%llu,+%llu)", t, (unsigned long long)off,
                    (unsigned long long)len, o.idx, kv.second.th, (unsigned long long)kv.second.off, (unsigned long long)kv.second.len);
    int id = next_acq++;
    held[id] = {off, len, t};
    sim::ev(0x1800, t, o.idx);
    sim::note("th%d op%d holds [%llu,+%llu)", t, o.idx, (unsigned long long)off, (unsigned long long)len);
    return id;
}

}  // namespace

void run_script(int t) {
    phx::ThreadRec& me = W.threads[t];
    for (auto& o : scripts[t]) {
        if (hx::dropped(o.idx)) continue;
        if (o.k == OP_PAUSE) { phx::Where w(me, "pause", o.idx); if (o.pause_us) thread_usleep(o.pause_us); else thread_yield(); continue; }
        RangeLock::LockHandle* h = nullptr;
        int id;
        sim::note("th%d op%d wants [%llu,+%llu) how=%d", t, o.idx, (unsigned long long)o.off, (unsigned long long)o.len, o.how);
        if (o.how == 0) {
            phx::Where w(me, "lock()", o.idx);
            h = RL->lock(o.off, o.len);
            if (!h) HX_VIOL("result", "RangeLock::lock returned a null handle");
        } else if (o.how == 1) {
            phx::Where w(me, "try_lock_wait", o.idx);
            for (int tries = 0;; tries++) {
                uint64_t off = o.off, len = o.len;
                int r = RL->try_lock_wait(off, len);
                if (r == 0) break;
                sim::NoSched ns;
                sim::probe("waited_on_conflict"); sim::probe("nontrivial");
                if (o.len && sat_end(o.off, o.len) != o.off && !(off < sat_end(o.off, o.len) && sat_end(off, len) >= o.off))
                    HX_VIOL("result", "try_lock_wait([%llu,+%llu)) reported a conflicting range [%llu,+%llu) that does not touch the request",
                            (unsigned long long)o.off, (unsigned long long)o.len, (unsigned long long)off, (unsigned long long)len);
            }
        } else {
            phx::Where w(me, "try_lock_wait2", o.idx);
            while (!(h = RL->try_lock_wait2(o.off, o.len))) { sim::NoSched ns; sim::probe("waited_on_conflict"); sim::probe("nontrivial"); }
        }
        { sim::NoSched ns; id = record_acquire(t, o, o.off, o.len); }
        if (o.hold == 1) thread_yield(); else if (o.hold == 2) thread_usleep(o.hold_us);
        sim::yield_point();
        uint64_t coff = o.off, clen = o.len;
        if (o.adjust && h) {
            int r;
            { sim::NoSched ns; sim::note("th%d op%d adjust_range -> [%llu,+%llu) ...", t, o.idx, (unsigned long long)o.aoff, (unsigned long long)o.alen);
              // while adjust_range() runs the library holds the old range up to some instant and the new one after it:
              // only the intersection is certainly held throughout
              uint64_t lo = std::max(coff, o.aoff), hi = std::min(sat_end(coff, clen), sat_end(o.aoff, o.alen));
              held[id].off = lo; held[id].len = hi > lo ? hi - lo : 0; }
            { phx::Where w(me, "adjust_range", o.idx); r = RL->adjust_range(h, o.aoff, o.alen); }
            { sim::NoSched ns; sim::note("th%d op%d adjust_range returned %d", t, o.idx, r); }
            sim::NoSched ns;
            if (r == 0) {
                for (auto& kv : held)
                    if (kv.first != id && overlap(o.aoff, o.alen, kv.second.off, kv.second.len))
                        HX_VIOL("overlap", "adjust_range of th%d to [%llu,+%llu) succeeded (op %d) although th%d holds the overlapping range [%llu,+%llu)", t,
                                (unsigned long long)o.aoff, (unsigned long long)o.alen, o.idx, kv.second.th, (unsigned long long)kv.second.off, (unsigned long long)kv.second.len);
                held[id].off = coff = o.aoff; held[id].len = clen = o.alen;
                sim::probe("adjusted"); sim::note("th%d op%d adjusted to [%llu,+%llu)", t, o.idx, (unsigned long long)coff, (unsigned long long)clen);
            } else { held[id].off = coff; held[id].len = clen; sim::probe("adjust_refused"); }
            if (o.hold) { sim::nosched_end(); thread_yield(); sim::nosched_begin(); }
        }
        { sim::NoSched ns; held.erase(id); sim::ev(0x1801, t, o.idx); sim::note("th%d op%d releases", t, o.idx); }
        { phx::Where w(me, "unlock", o.idx); if (h) RL->unlock(h); else RL->unlock(coff, clen); }
    }
}

void harness_run(uint64_t seed) {
    phx::quiet_logs();
    gen_plan();
    RL = new RangeLock();
    char plan[200];
    snprintf(plan, sizeof plan, "{\"vcpus\":%d,\"threads\":%zu,\"ops\":%d}", W.nvcpu, scripts.size(), n_ops);
    sim::extra_json("plan", plan);
    char nb[32]; snprintf(nb, sizeof nb, "%d", n_ops); sim::extra_json("nops", nb);
    sim::start();
    W.deadline_ns = sim::now_ns() + 5000000000ULL;
    W.run();
    if (!held.empty()) HX_VIOL("harness", "ledger not empty");
    sim::finish("ok", "", "rangelock vcpus=%d threads=%zu", W.nvcpu, scripts.size());
}

// C07 — lock-free ring queues (MPMC, batch MPMC, SPSC, fixed and flexible) and RingChannel/FlexRingChannel:
// bounded FIFO, nothing lost or duplicated; a blocked channel consumer/producer is notified.
#include "phx.h"
#include <photon/common/lockfree_queue.h>
#include <functional>
#include <map>

using namespace photon;
using photon::common::RingChannel;
using photon::common::FlexRingChannel;

namespace {

typedef uint64_t V;
inline V mkval(int p, int q) { return ((uint64_t)(p + 1) << 32) | (uint32_t)(q + 1); }

struct Q {                      // type-erased queue under test
    const char* name = "";
    size_t capacity = 0;
    bool spsc = false, has_batch = false;
    std::function<bool(V)> push;
    std::function<bool(V&)> pop;
    std::function<void(V)> send;                 // blocking, ThreadPause
    std::function<V()> recv;
    std::function<size_t(const V*, size_t)> push_batch;
    std::function<size_t(V*, size_t)> pop_batch;
    std::function<size_t()> avail;
};

template <typename QT> void bind_common(Q& q, QT* p) {
    q.capacity = p->capacity;
    q.push = [p](V v) { return p->push(v); };
    q.pop = [p](V& v) { return p->pop(v); };
    q.send = [p](V v) { p->template send<ThreadPause>(v); };
    q.recv = [p]() { return p->template recv<ThreadPause>(); };
    q.avail = [p]() { return p->read_available(); };
}
template <typename QT> void bind_batch(Q& q, QT* p) {
    q.has_batch = true;
    q.push_batch = [p](const V* v, size_t n) { return p->push_batch(v, n); };
    q.pop_batch = [p](V* v, size_t n) { return p->pop_batch(v, n); };
}

Q make_queue(int kind, int capsel) {
    Q q;
    static const size_t CAPS[] = {2, 4, 8};
    switch (kind) {
    case 0: q.name = "LockfreeMPMCRingQueue";
        if (capsel == 0) bind_common(q, new LockfreeMPMCRingQueue<V, 2>()); else if (capsel == 1) bind_common(q, new LockfreeMPMCRingQueue<V, 4>()); else bind_common(q, new LockfreeMPMCRingQueue<V, 8>());
        break;
    case 1: q.name = "LockfreeBatchMPMCRingQueue";
        if (capsel == 0) { auto p = new LockfreeBatchMPMCRingQueue<V, 2>(); bind_common(q, p); bind_batch(q, p); }
        else if (capsel == 1) { auto p = new LockfreeBatchMPMCRingQueue<V, 4>(); bind_common(q, p); bind_batch(q, p); }
        else { auto p = new LockfreeBatchMPMCRingQueue<V, 8>(); bind_common(q, p); bind_batch(q, p); }
        break;
    case 2: q.name = "LockfreeSPSCRingQueue"; q.spsc = true;
        if (capsel == 0) { auto p = new LockfreeSPSCRingQueue<V, 2>(); bind_common(q, p); bind_batch(q, p); }
        else if (capsel == 1) { auto p = new LockfreeSPSCRingQueue<V, 4>(); bind_common(q, p); bind_batch(q, p); }
        else { auto p = new LockfreeSPSCRingQueue<V, 8>(); bind_common(q, p); bind_batch(q, p); }
        break;
    case 3: { q.name = "FlexLockfreeMPMCRingQueue"; auto p = FlexLockfreeMPMCRingQueue<V>::create(capsel == 0 ? 1 : CAPS[capsel] - (capsel == 2)); bind_common(q, p); break; }
    case 4: { q.name = "FlexLockfreeBatchMPMCRingQueue"; auto p = FlexLockfreeBatchMPMCRingQueue<V>::create(CAPS[capsel]); bind_common(q, p); bind_batch(q, p); break; }
    default: { q.name = "FlexLockfreeSPSCRingQueue"; q.spsc = true; auto p = FlexLockfreeSPSCRingQueue<V>::create(CAPS[capsel]); bind_common(q, p); bind_batch(q, p); break; }
    }
    return q;
}

struct Ev { bool push; int who; uint64_t seq0, seq1, t0, t1; V v; };   // one successful element transfer
std::vector<Ev> evs;
uint64_t g_seq = 0;
int total = 0; volatile int claimed = 0, received = 0;
int n_ops = 0;

void check_history(const Q& q, int nprod, const std::vector<int>& per_prod) {
    std::map<V, int> sent, got;
    for (auto& e : evs) (e.push ? sent : got)[e.v]++;
    for (auto& kv : got) {
        if (!sent.count(kv.first)) HX_VIOL("phantom-value", "%s: value %llx was popped but never pushed", q.name, (unsigned long long)kv.first);
        if (kv.second > 1) HX_VIOL("duplicate", "%s: value %llx was popped %d times", q.name, (unsigned long long)kv.first, kv.second);
    }
    for (auto& kv : sent) if (!got.count(kv.first)) HX_VIOL("lost-value", "%s: value %llx was pushed successfully but never popped", q.name, (unsigned long long)kv.first);
    // order: same producer; a pop that returned before another pop began must not carry a later element
    std::vector<const Ev*> pops;
    for (auto& e : evs) if (!e.push) pops.push_back(&e);
    for (auto a : pops) for (auto b : pops)
        if (a != b && (a->v >> 32) == (b->v >> 32) && a->seq1 < b->seq0 && (uint32_t)a->v > (uint32_t)b->v)
            HX_VIOL("order", "%s: elements of producer %d out of order: #%u popped (call ended at seq %llu) before #%u whose pop began at seq %llu", q.name,
                    (int)(a->v >> 32) - 1, (uint32_t)a->v - 1, (unsigned long long)a->seq1, (uint32_t)b->v - 1, (unsigned long long)b->seq0);
    // capacity: pushes that have returned minus pops that have at least begun never exceed the capacity
    for (auto& p : evs) {
        if (!p.push) continue;
        long a = 0, b = 0;
        for (auto& e : evs) { if (e.push && e.seq1 <= p.seq1) a++; if (!e.push && e.seq0 < p.seq1) b++; }
        if (a - b > (long)q.capacity)
            HX_VIOL("capacity", "%s: %ld elements pushed and not yet being popped when the push of %llx returned, capacity is %zu", q.name, a - b, (unsigned long long)p.v, q.capacity);
    }
    (void)nprod; (void)per_prod;
}

void rec(bool push, int who, uint64_t s0, uint64_t t0, V v) {
    sim::NoSched ns;
    evs.push_back({push, who, s0, ++g_seq, t0, sim::now_ns(), v});
    if (!push) received++;
    sim::ev(push ? 0x9051 : 0x909, who, v);
    sim::note("%s by %d of %llx: call %llu..%llu ns", push ? "push" : "pop", who, (unsigned long long)v, (unsigned long long)t0, (unsigned long long)sim::now_ns());
}

// ------------------------------------------------------------------------------------------------
// W1: raw queues between plain OS tasks
void run_queues() {
    int kind = sim::rnd(6), capsel = sim::rnd(3);
    Q q = make_queue(kind, capsel);
    int nprod = q.spsc ? 1 : 1 + sim::rnd(3), ncons = q.spsc ? 1 : 1 + sim::rnd(3);
    std::vector<int> per(nprod);
    for (auto& k : per) { k = 1 + sim::rnd(2 * q.capacity + 6); total += k; }
    int style_p = sim::rnd(3), style_c = sim::rnd(3);       // 0 push/pop retry, 1 blocking send/recv, 2 batch
    if (!q.has_batch) { if (style_p == 2) style_p = 0; if (style_c == 2) style_c = 0; }
    char plan[256]; snprintf(plan, sizeof plan, "{\"sub\":\"queue\",\"type\":\"%s\",\"capacity\":%zu,\"producers\":%d,\"consumers\":%d,\"elements\":%d,\"style\":[%d,%d]}", q.name, q.capacity, nprod, ncons, total, style_p, style_c);
    sim::extra_json("plan", plan); sim::extra_json("nops", "0");
    sim::start();
    volatile int done = 0;
    std::vector<std::thread> th;
    for (int p = 0; p < nprod; p++) th.emplace_back([&, p] {
        int k = per[p];
        for (int i = 0; i < k;) {
            uint64_t s0, t0; { sim::NoSched ns; s0 = ++g_seq; t0 = sim::now_ns(); }
            if (style_p == 2) {
                V buf[16]; size_t n = std::min<size_t>(1 + sim::frnd(2 * q.capacity), k - i); if (n > 16) n = 16;
                for (size_t j = 0; j < n; j++) buf[j] = mkval(p, i + j);
                size_t c = q.push_batch(buf, n);
                if (c > n) HX_VIOL("result", "%s: push_batch(%zu) returned %zu", q.name, n, c);
                for (size_t j = 0; j < c; j++) rec(true, p, s0, t0, buf[j]);
                if (c == 0) { sim::probe("push_full"); sched_yield(); } else if (c < n) sim::probe("partial_batch_push");
                i += c;
            } else if (style_p == 1) { q.send(mkval(p, i)); rec(true, p, s0, t0, mkval(p, i)); i++; }
            else { if (q.push(mkval(p, i))) { rec(true, p, s0, t0, mkval(p, i)); i++; } else { sim::probe("push_full"); sim::probe("nontrivial"); sched_yield(); } }
        }
        sim::NoSched ns; done++;
    });
    for (int c = 0; c < ncons; c++) th.emplace_back([&, c] {
        for (;;) {
            int want;
            { sim::NoSched ns; if (claimed >= total) break; want = style_c == 2 ? std::min<int>(1 + sim::frnd(2 * q.capacity), total - claimed) : 1; if (want > 16) want = 16; claimed += want; }
            int gotn = 0;
            while (gotn < want) {
                uint64_t s0, t0; { sim::NoSched ns; s0 = ++g_seq; t0 = sim::now_ns(); }
                if (style_c == 2) {
                    V buf[16]; size_t n = q.pop_batch(buf, want - gotn);
                    if (n > (size_t)(want - gotn)) HX_VIOL("result", "%s: pop_batch(%d) returned %zu", q.name, want - gotn, n);
                    for (size_t j = 0; j < n; j++) rec(false, c, s0, t0, buf[j]);
                    if (n == 0) { sim::probe("pop_empty"); sched_yield(); }
                    gotn += n;
                } else if (style_c == 1) { V v = q.recv(); rec(false, c, s0, t0, v); gotn++; }
                else { V v = 0; if (q.pop(v)) { rec(false, c, s0, t0, v); gotn++; } else { sim::probe("pop_empty"); sim::probe("nontrivial"); sched_yield(); } }
            }
        }
        sim::NoSched ns; done++;
    });
    uint64_t deadline = sim::now_ns() + 3000000000ULL;
    while (done < nprod + ncons) {
        if (sim::now_ns() > deadline)
            HX_VIOL("stuck", "%s (capacity %zu): %d of %d tasks never finished; %d of %d elements received, %zu still readable", q.name, q.capacity, nprod + ncons - done, nprod + ncons, received, total, q.avail());
        sim::sleep_ns(2000000);
    }
    for (auto& t : th) t.join();
    check_history(q, nprod, per);
    if (sim::switches() > 6) sim::probe("nontrivial");
    sim::finish("ok", "", "%s cap=%zu elements=%d", q.name, q.capacity, total);
}

// ------------------------------------------------------------------------------------------------
// W2: RingChannel / FlexRingChannel, consumers in photon threads
phx::World W;
struct Chan {
    const char* name; size_t capacity;
    std::function<void(V)> send_photon, send_thread;
    std::function<V(uint64_t, uint64_t)> recv;
    std::function<size_t()> avail;
} CHN;
struct Span { int who; uint64_t t0, t1; };
std::vector<Span> recv_spans, send_spans;

void run_channel() {
    int kind = sim::rnd(4), capsel = sim::rnd(3);
    static const size_t CAPS[] = {2, 4, 8};
    if (kind == 0) { auto p = capsel ? nullptr : nullptr; (void)p; }
    switch (kind) {
    case 0: { auto c = new RingChannel<LockfreeMPMCRingQueue<V, 4>>(); CHN = {"RingChannel<MPMC,4>", c->capacity, [c](V v) { c->send<PhotonPause>(v); }, [c](V v) { c->send<ThreadPause>(v); }, [c](uint64_t a, uint64_t b) { return c->recv(a, b); }, [c] { return c->read_available(); }}; break; }
    case 1: { auto c = new RingChannel<LockfreeBatchMPMCRingQueue<V, 2>>(); CHN = {"RingChannel<BatchMPMC,2>", c->capacity, [c](V v) { c->send<PhotonPause>(v); }, [c](V v) { c->send<ThreadPause>(v); }, [c](uint64_t a, uint64_t b) { return c->recv(a, b); }, [c] { return c->read_available(); }}; break; }
    case 2: { auto c = FlexRingChannel<FlexLockfreeMPMCRingQueue<V>>::create(CAPS[capsel]); CHN = {"FlexRingChannel<MPMC>", CAPS[capsel], [c](V v) { c->send<PhotonPause>(v); }, [c](V v) { c->send<ThreadPause>(v); }, [c](uint64_t a, uint64_t b) { return c->recv(a, b); }, [c] { return c->read_available(); }}; break; }
    default: { auto c = FlexRingChannel<FlexLockfreeBatchMPMCRingQueue<V>>::create(CAPS[capsel]); CHN = {"FlexRingChannel<BatchMPMC>", CAPS[capsel], [c](V v) { c->send<PhotonPause>(v); }, [c](V v) { c->send<ThreadPause>(v); }, [c](uint64_t a, uint64_t b) { return c->recv(a, b); }, [c] { return c->read_available(); }}; break; }
    }
    W.nvcpu = 1 + sim::rnd(2);
    int ncons = 1 + sim::rnd(3), npp = sim::rnd(3), nop = sim::rnd(3);
    if (npp + nop == 0) npp = 1;
    bool sparse = sim::rnd(2);
    if (sparse) { if (sim::rnd(2)) { npp = 1; nop = 0; } else { npp = 0; nop = 1; } W.nvcpu = 2; }   // one producer, never the bottleneck
    std::vector<int> per(npp + nop);
    std::vector<std::vector<uint64_t>> gaps(npp + nop);
    static const uint64_t GAP_US[] = {0, 0, 10, 100, 1000, 5000, 30000, 250000};
    // sparse mode: every element is sent into an idle channel (consumers asleep), far from the next one, so that a
    // missed notification cannot be rescued by the following send
    // lock-step mode: producers send every G, consumers pause for the same G after each element, so a consumer
    // re-enters recv() (and goes to sleep) at the very instant the next element is pushed; G > 100 ms, so a missed
    // notification cannot be rescued by the following send
    static const uint64_t SPARSE_US[] = {120000, 150000, 250000};
    uint64_t lockstep_us = SPARSE_US[sim::rnd(3)];
    for (size_t p = 0; p < per.size(); p++) {
        per[p] = sparse ? 1 + sim::rnd(6) : 1 + sim::rnd(2 * CHN.capacity + 5); total += per[p];
        for (int i = 0; i < per[p]; i++) gaps[p].push_back(sparse ? lockstep_us : GAP_US[sim::rnd(8)]);
    }
    static const uint64_t YT[] = {0, 0, 2, 2, 1024};
    uint64_t yturn = YT[sim::rnd(5)], yusec = sim::rnd(2) ? 1024 : 50;
    char plan[300]; snprintf(plan, sizeof plan, "{\"sub\":\"channel\",\"type\":\"%s\",\"capacity\":%zu,\"vcpus\":%d,\"consumers\":%d,\"photon_producers\":%d,\"os_producers\":%d,\"elements\":%d,\"yield_turn\":%llu}",
                             CHN.name, CHN.capacity, W.nvcpu, ncons, npp, nop, total, (unsigned long long)yturn);
    sim::extra_json("plan", plan); sim::extra_json("nops", "0");
    for (int c = 0; c < ncons; c++) W.add(sim::rnd(W.nvcpu), [=](int id) {
        phx::ThreadRec& me = W.threads[id];
        for (;;) {
            { sim::NoSched ns; if (claimed >= total) break; claimed++; }
            uint64_t s0, t0; { sim::NoSched ns; s0 = ++g_seq; t0 = sim::now_ns(); }
            V v;
            { phx::Where w(me, "channel.recv", c); v = CHN.recv(yturn, yusec); }
            rec(false, c, s0, t0, v);
            { sim::NoSched ns; recv_spans.push_back({c, t0, sim::now_ns()}); }
            if (sparse) thread_usleep(lockstep_us); else if (sim::frnd(4) == 0) thread_usleep(GAP_US[sim::frnd(6)]);
        }
    });
    for (int p = 0; p < npp; p++) W.add(sim::rnd(W.nvcpu), [=](int id) {
        phx::ThreadRec& me = W.threads[id];
        for (int i = 0; i < per[p]; i++) {
            if (gaps[p][i]) thread_usleep(gaps[p][i]);
            uint64_t s0, t0; { sim::NoSched ns; s0 = ++g_seq; t0 = sim::now_ns(); }
            { phx::Where w(me, "channel.send", p); CHN.send_photon(mkval(p, i)); }
            rec(true, p, s0, t0, mkval(p, i));
            { sim::NoSched ns; send_spans.push_back({p, t0, sim::now_ns()}); }
        }
    });
    sim::start();
    W.deadline_ns = sim::now_ns() + 30000000000ULL;
    std::vector<std::thread> os;
    for (int p = npp; p < npp + nop; p++) os.emplace_back([=] {
        for (int i = 0; i < per[p]; i++) {
            sim::sleep_ns(gaps[p][i] * 1000 + (sparse ? 0 : 1000));
            uint64_t s0, t0; { sim::NoSched ns; s0 = ++g_seq; t0 = sim::now_ns(); }
            CHN.send_thread(mkval(p, i));
            rec(true, p, s0, t0, mkval(p, i));
            { sim::NoSched ns; send_spans.push_back({p, t0, sim::now_ns()}); sim::probe("os_thread_send"); }
        }
    });
    W.run();
    for (auto& t : os) t.join();
    Q q; q.name = CHN.name; q.capacity = CHN.capacity;
    check_history(q, npp + nop, per);
    // (e) wake-up: the queue is never left non-empty for long while a consumer sits in recv() the whole time
    // (the timed re-check is 100 ms; a correct notification costs steps, not simulated time)
    for (auto& s : evs) { if (!s.push) continue; for (auto& r : evs) if (!r.push && r.v == s.v && r.t1 > s.t1 + 95000000ULL) sim::probe("delivery_took_over_95ms"); }
    for (auto& sp : recv_spans) if (sp.t1 - sp.t0 > 95000000ULL) sim::probe("recv_call_over_95ms");
    if (sim::cfg.n_stalls == 0 && sim::perturbed_ns() < 5000000) {
        const uint64_t LIM = 90ULL * 1000 * 1000;
        for (auto& s : evs) {
            if (!s.push) continue;
            uint64_t taken = 0;
            for (auto& r : evs) if (!r.push && r.v == s.v) taken = r.t1;
            if (taken < s.t1 + LIM + 5000000) continue;
            for (auto& sp : recv_spans)
                if (sp.t0 <= s.t1 && sp.t1 >= s.t1 + LIM)
                    HX_VIOL("missed-notification", "%s: value %llx was in the queue from %llu ns to %llu ns while consumer %d sat inside recv() from %llu ns to %llu ns: it was only served by the periodic re-check",
                            CHN.name, (unsigned long long)s.v, (unsigned long long)s.t1, (unsigned long long)taken, sp.who, (unsigned long long)sp.t0, (unsigned long long)sp.t1);
        }
        // symmetric: a producer blocked in send() although a slot was certainly free for the whole time
        for (auto& sp : send_spans) {
            if (sp.t1 - sp.t0 < LIM + 5000000) continue;
            // occupancy upper bound at time x: sends begun before x minus receives finished before x
            bool free_all_along = true;
            std::vector<uint64_t> xs = {sp.t0};
            for (auto& e : evs) { if (e.t0 > sp.t0 && e.t0 < sp.t0 + LIM) xs.push_back(e.t0); if (e.t1 > sp.t0 && e.t1 < sp.t0 + LIM) xs.push_back(e.t1); }
            for (uint64_t x : xs) {
                long begun = 0, fin = 0;
                for (auto& e : evs) { if (e.push && e.t0 <= x && !(e.who == sp.who && e.t0 == sp.t0)) begun++; if (!e.push && e.t1 <= x) fin++; }
                for (auto& o : send_spans) if (o.t0 <= x && o.t1 > x && !(o.who == sp.who && o.t0 == sp.t0)) { /* counted in begun through evs (t0 shared) */ }
                if (begun - fin >= (long)CHN.capacity) { free_all_along = false; break; }
            }
            if (free_all_along)
                HX_VIOL("missed-notification", "%s: producer %d sat inside send() from %llu ns to %llu ns although a slot was free for the first 90 ms: it was only served by the periodic re-check",
                        CHN.name, sp.who, (unsigned long long)sp.t0, (unsigned long long)sp.t1);
        }
    }
    sim::probe("nontrivial");
    sim::finish("ok", "", "%s cap=%zu elements=%d", CHN.name, CHN.capacity, total);
}

}  // namespace

void harness_run(uint64_t seed) {
    phx::quiet_logs();
    if (sim::rnd(2) == 0 || hx::param("only_queues", 0)) run_queues(); else run_channel();
}

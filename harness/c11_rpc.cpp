// C11 — RPC stub: each call gets its own response or an error; nothing is touched after a call returned.
// Real Stub + out-of-order engine over a simulated stream; the far end is a scripted responder
// (permutation, fragmentation, header|body gaps straddling deadlines, unknown / duplicate tags, reset, silence).
#include "phx.h"
#include "simstream.h"
#include <photon/rpc/rpc.h>
#include <photon/rpc/serialize.h>
#include <algorithm>
#include <map>

using namespace photon;
using namespace photon::rpc;

namespace {

template <int N, uint32_t F>
struct Op {
    const static uint32_t IID = 0x7e57;
    const static uint32_t FID = F;
    struct Request : public photon::rpc::Message { uint64_t id = 0, x = 0; char fill[N]; PROCESS_FIELDS(id, x, fill); };
    struct Response : public photon::rpc::Message { uint64_t id = 0, y = 0; char fill[N]; PROCESS_FIELDS(id, y, fill); };
};
using OpS = Op<8, 1>; using OpM = Op<300, 2>; using OpL = Op<9000, 3>;
// a response with a variable-length field: the client lends a buffer, the server decides how much of it is used, so a body
// shorter than the buffer is legitimate -- and a truncated one must not be mistaken for it
struct OpV {
    const static uint32_t IID = 0x7e57;
    const static uint32_t FID = 4;
    struct Request : public photon::rpc::Message { uint64_t id = 0, x = 0; char fill[8]; PROCESS_FIELDS(id, x, fill); };
    struct Response : public photon::rpc::Message { uint64_t id = 0, y = 0; photon::rpc::buffer data; PROCESS_FIELDS(id, y, data); };
};
inline size_t vlen(uint64_t id) { return 1 + (id * 977 + 13) % 3000; }
// the untyped call underneath call<Operation>() (what a custom serializer builds on): request and response are plain iovectors
struct StubAccess : photon::rpc::Stub { using photon::rpc::Stub::do_call; };
inline int raw_call(Stub* s, FunctionID fn, iovector* req, iovector* resp, Timeout tmo) { return (s->*(&StubAccess::do_call))(fn, req, resp, tmo); }
static const size_t VCAP = 4096;

inline uint64_t g(uint64_t id, uint64_t x) { return (x * 0x9e3779b97f4a7c15ULL) ^ (id << 17) ^ 0xabcdef; }
inline char gfill(uint64_t id, int i) { return (char)(id * 31 + i * 7 + 3); }

struct CallPlan {
    int idx, caller, kind;             // kind: 0 small 1 medium 2 large
    uint64_t timeout_us;               // 0 = none
    uint64_t pre_us;                   // pause before issuing
    // responder side
    uint64_t delay_us, gap_us;         // before the header / between header and body
    int pieces = 1; uint64_t piece_gap_us = 0;   // the body is sent in that many pieces, this far apart
    int fate;                          // 0 normal, 1 unknown tag, 2 duplicate response, 3 never answered, 4 wrong size (truncated body),
                                       // 5 unknown tag whose payload happens to contain a well-formed frame addressed to another pending call
    // result
    volatile int done = 0; int ret = 0, en = 0; bool ok_data = false;
};
std::vector<CallPlan> calls;
phx::World W;
simstream::Pipe* PIPE;
Stub* STUB;
int n_callers, n_calls;
uint64_t reset_after_resp = ~0ULL; int reset_errno = 0; bool eof_instead = false;
bool real_server = false;          // the far end is the library's own Skeleton (serve() over the same pipe), not the scripted responder
Skeleton* SK = nullptr;
bool early_answers = false;        // hostile peer: answers a tag whose request is still being transmitted, then stalls
uint64_t small_pipe = 0;           // capacity of the request direction in bytes (0 = unlimited): sends block
bool per_wait_timeouts = false;     // SimStream: the stream timeout bounds each wait for bytes instead of the whole read
bool cut_inside_body = false;       // the connection ends (FIN or reset) strictly inside the body of that response, not between frames
volatile int calls_done = 0, responder_done = 0;
std::vector<uint32_t> seg;

// stacks that stay poisoned after release: a leader touching a finished caller's context is reported
void* stk_alloc(void*, size_t size) { sim::NoSched ns; void* p = nullptr; if (posix_memalign(&p, 4096, size)) return nullptr; sim::unpoison(p, size); return p; }
void stk_dealloc(void*, void* p, size_t size) { sim::NoSched ns; sim::poison(p, size, "stack of a photon thread whose RPC call has returned"); }

template <typename OP>
void do_call(CallPlan& c) {
    auto* req = new typename OP::Request; auto* resp = new typename OP::Response;
    req->id = c.idx; req->x = 0x1000 + c.idx * 7919ULL;
    for (size_t i = 0; i < sizeof(req->fill); i++) req->fill[i] = (char)(c.idx + i);
    memset(resp->fill, 0x5A, sizeof(resp->fill)); resp->id = ~0ULL; resp->y = 0;
    Timeout tmo; if (c.timeout_us) tmo = Timeout(c.timeout_us);
    sim::note("call %d (caller %d, kind %d, timeout %llu us) issued", c.idx, c.caller, c.kind, (unsigned long long)c.timeout_us);
    errno = 0;
    int ret = STUB->call<OP>(*req, *resp, tmo);
    int en = errno;
    sim::NoSched ns;
    c.ret = ret; c.en = en;
    sim::note("call %d returned %d errno %d", c.idx, ret, ret < 0 ? en : 0);
    if (ret >= 0) {
        // (a) a successful call holds exactly the response produced for its own request
        if (ret != (int)sizeof(typename OP::Response))
            HX_VIOL("wrong-size", "call %d succeeded with %d bytes, its response has %zu", c.idx, ret, sizeof(typename OP::Response));
        if (resp->id != (uint64_t)c.idx || resp->y != g(c.idx, req->x))
            HX_VIOL("wrong-response", "call %d reports success but holds the response of request %lld (y=%llx, expected %llx)", c.idx, (long long)resp->id,
                    (unsigned long long)resp->y, (unsigned long long)g(c.idx, req->x));
        for (size_t i = 0; i < sizeof(resp->fill); i++) if (resp->fill[i] != gfill(c.idx, i))
            HX_VIOL("wrong-response", "call %d reports success but byte %zu of its payload is wrong", c.idx, i);
        if (c.fate == 3) HX_VIOL("wrong-response", "call %d succeeded although the server never answered it", c.idx);
        c.ok_data = true; sim::probe("call_ok");
    } else {
        if (ret != -1) HX_VIOL("result", "call %d returned %d", c.idx, ret);
        if (en == 0) HX_VIOL("result", "call %d failed without setting errno", c.idx);
        sim::probe(en == ETIMEDOUT ? "call_timed_out" : "call_failed"); sim::probe("nontrivial");
    }
    // (c) once the call has returned, nobody may touch its buffers any more
    sim::poison(req, sizeof(*req), "request of an RPC call that has returned");
    sim::poison(resp, sizeof(*resp), "response buffer of an RPC call that has returned");
}

void do_call_v(CallPlan& c) {
    auto* req = new OpV::Request; auto* resp = new OpV::Response;
    char* buf = (char*)malloc(VCAP);
    req->id = c.idx; req->x = 0x1000 + c.idx * 7919ULL;
    for (size_t i = 0; i < sizeof(req->fill); i++) req->fill[i] = (char)(c.idx + i);
    memset(buf, 0x5A, VCAP); resp->id = ~0ULL; resp->y = 0; resp->data.assign(buf, VCAP);
    Timeout tmo; if (c.timeout_us) tmo = Timeout(c.timeout_us);
    sim::note("call %d (caller %d, variable-length response, timeout %llu us) issued", c.idx, c.caller, (unsigned long long)c.timeout_us);
    errno = 0;
    int ret = STUB->call<OpV>(*req, *resp, tmo);
    int en = errno;
    sim::NoSched ns;
    c.ret = ret; c.en = en;
    sim::note("call %d returned %d errno %d", c.idx, ret, ret < 0 ? en : 0);
    if (ret >= 0) {
        size_t L = vlen(c.idx);
        if (resp->id != (uint64_t)c.idx || resp->y != g(c.idx, req->x))
            HX_VIOL("wrong-response", "call %d reports success but holds the response of request %lld (y=%llx, expected %llx)", c.idx, (long long)resp->id,
                    (unsigned long long)resp->y, (unsigned long long)g(c.idx, req->x));
        if (resp->data.size() != L)
            HX_VIOL("wrong-size", "call %d succeeded (%d bytes) with a %zu-byte payload; the server produced %zu bytes for it", c.idx, ret, resp->data.size(), L);
        for (size_t i = 0; i < L; i++) if (((char*)resp->data.addr())[i] != gfill(c.idx, i))
            HX_VIOL("wrong-response", "call %d reports success but byte %zu of its variable-length payload is wrong", c.idx, i);
        if (c.fate == 3) HX_VIOL("wrong-response", "call %d succeeded although the server never answered it", c.idx);
        c.ok_data = true; sim::probe("call_ok"); sim::probe("variable_length_call_ok");
    } else {
        if (ret != -1) HX_VIOL("result", "call %d returned %d", c.idx, ret);
        sim::probe(en == ETIMEDOUT ? "call_timed_out" : "call_failed"); sim::probe("nontrivial");
    }
    sim::poison(req, sizeof(*req), "request of an RPC call that has returned");
    sim::poison(resp, sizeof(*resp), "response object of an RPC call that has returned");
    sim::poison(buf, VCAP, "response buffer of an RPC call that has returned");
}

void do_call_raw(CallPlan& c) {
    auto* req = new OpV::Request;
    char* buf = (char*)malloc(VCAP);
    req->id = c.idx; req->x = 0x1000 + c.idx * 7919ULL;
    memset(buf, 0x5A, VCAP);
    IOVector qv, rv;
    qv.push_back(req, sizeof(*req)); rv.push_back(buf, VCAP);
    Timeout tmo; if (c.timeout_us) tmo = Timeout(c.timeout_us);
    sim::note("call %d (caller %d, untyped call, timeout %llu us) issued", c.idx, c.caller, (unsigned long long)c.timeout_us);
    errno = 0;
    int ret = raw_call(STUB, FunctionID(0x7e57, 5), &qv, &rv, tmo);
    int en = errno;
    sim::NoSched ns;
    c.ret = ret; c.en = en;
    sim::note("call %d returned %d errno %d", c.idx, ret, ret < 0 ? en : 0);
    if (ret >= 0) {
        size_t L = c.fate == 4 ? vlen(c.idx) / 2 : vlen(c.idx);      // fate 4: the server itself framed only half of the payload
        if ((size_t)ret != L) HX_VIOL("wrong-size", "untyped call %d succeeded with %d bytes; the server produced %zu bytes for it", c.idx, ret, L);
        for (size_t i = 0; i < L; i++) if (buf[i] != gfill(c.idx, i)) HX_VIOL("wrong-response", "untyped call %d reports success but byte %zu of its payload is wrong", c.idx, i);
        if (c.fate == 3) HX_VIOL("wrong-response", "call %d succeeded although the server never answered it", c.idx);
        c.ok_data = true; sim::probe("call_ok"); sim::probe("untyped_call_ok");
    } else {
        if (ret != -1) HX_VIOL("result", "call %d returned %d", c.idx, ret);
        sim::probe(en == ETIMEDOUT ? "call_timed_out" : "call_failed"); sim::probe("nontrivial");
    }
    sim::poison(req, sizeof(*req), "request of an RPC call that has returned");
    sim::poison(buf, VCAP, "response buffer of an RPC call that has returned");
}

void* call_thread(void* arg) {
    CallPlan& c = *(CallPlan*)arg;
    if (c.kind == 4) do_call_raw(c); else
    if (c.kind == 3) do_call_v(c); else
    if (c.kind == 0) do_call<OpS>(c); else if (c.kind == 1) do_call<OpM>(c); else do_call<OpL>(c);
    sim::NoSched ns; c.done = 1; calls_done++;
    return nullptr;
}

void caller(int me) {
    for (auto& c : calls) {
        if (c.caller != me || hx::dropped(c.idx)) { if (c.caller == me) { sim::NoSched ns; c.done = 1; calls_done++; } continue; }
        if (c.pre_us) thread_usleep(c.pre_us);
        // every call lives in its own short-lived photon thread: its stack (with the call context) is released right after
        auto th = thread_create(&call_thread, &c, 256 * 1024);
        auto jh = thread_enable_join(th);
        if (sim::rnd(2)) thread_join(jh);                    // sequential caller
        else { thread_usleep(sim::rnd(200)); thread_join(jh); }
    }
}

// the services behind the real Skeleton: every request is answered after its planned delay, so completions are out of order
struct Services {
    template <typename OP>
    int serve_fixed(typename OP::Request* req, typename OP::Response* resp) {
        uint64_t id = req->id;
        if (id < calls.size() && calls[id].delay_us) thread_usleep(calls[id].delay_us);
        resp->id = id; resp->y = g(id, req->x);
        for (size_t i = 0; i < sizeof(resp->fill); i++) resp->fill[i] = gfill(id, i);
        sim::probe("served_by_real_skeleton");
        return 0;
    }
    int do_rpc_service(OpS::Request* q, OpS::Response* r, IOVector*, IStream*) { return serve_fixed<OpS>(q, r); }
    int do_rpc_service(OpM::Request* q, OpM::Response* r, IOVector*, IStream*) { return serve_fixed<OpM>(q, r); }
    int do_rpc_service(OpL::Request* q, OpL::Response* r, IOVector*, IStream*) { return serve_fixed<OpL>(q, r); }
    int do_rpc_service(OpV::Request* q, OpV::Response* r, IOVector* iov, IStream*) {
        uint64_t id = q->id;
        if (id < calls.size() && calls[id].delay_us) thread_usleep(calls[id].delay_us);
        size_t L = vlen(id);
        char* p = (char*)iov->malloc(L);
        for (size_t i = 0; i < L; i++) p[i] = gfill(id, i);
        r->id = id; r->y = g(id, q->x); r->data.assign(p, L);
        sim::probe("served_by_real_skeleton");
        return 0;
    }
    // the untyped function (method 5): the payload is the plain byte string
    int raw(iovector* req, Skeleton::ResponseSender rs, IStream*) {
        OpV::Request q; if (req->sum() < sizeof(q)) return -1;
        iovector_view v = req->view(); size_t off = 0;
        for (int i = 0; i < v.iovcnt && off < sizeof(q); i++) { size_t n = std::min(v.iov[i].iov_len, sizeof(q) - off); memcpy((char*)&q + off, v.iov[i].iov_base, n); off += n; }
        uint64_t id = q.id;
        if (id < calls.size() && calls[id].delay_us) thread_usleep(calls[id].delay_us);
        size_t L = vlen(id);
        IOVector resp; if (resp.push_back(L) != L) return -1;
        char* p = (char*)resp.back().iov_base;
        for (size_t i = 0; i < L; i++) p[i] = gfill(id, i);
        sim::probe("served_by_real_skeleton");
        return rs(&resp);
    }
} SERVICES;

void real_server_thread(int) {
    SK->serve(&PIPE->b);          // returns when the client side has closed the connection
    sim::NoSched ns; responder_done = 1;
}

struct Pending { uint64_t at_us; int idx; uint64_t tag; uint32_t fn; };

void responder(int) {
    // reads requests as they arrive and answers them according to the plan
    auto& ep = PIPE->b;
    std::vector<Pending> pend;
    uint64_t answered = 0;
    ep.timeout(200);       // poll period of simulated time
    std::string buf;
    bool peer_gone = false;
    bool conn_dead = false;            // the connection was cut (FIN or reset): nothing more is ever sent
    uint64_t last_early_tag = 0;
    for (;;) {
        { sim::NoSched ns; if (calls_done == n_calls) break; }
        // 1. pull whatever request bytes are there
        if (!peer_gone) {
            char tmp[16384];
            ssize_t r = ep.recv(tmp, sizeof tmp);
            if (r > 0) buf.append(tmp, r);
            else if (r == 0 || (r < 0 && errno != ETIMEDOUT)) peer_gone = true;
        } else thread_usleep(200);
        while (buf.size() >= sizeof(Header)) {
            Header h; memcpy(&h, buf.data(), sizeof h);
            if (buf.size() < sizeof h + h.size && early_answers && !conn_dead && h.tag != last_early_tag && !pend.empty() && sim::rnd(2) == 0) {   // (some call is waiting: there is a reader)
                // the request is still on its way (its sender is blocked on the full pipe): answer its tag right now with a
                // response header, never send the body, and stop reading for a while
                last_early_tag = h.tag;
                Header r; r.function = h.function; r.tag = h.tag; r.size = 64 + sim::rnd(200);
                ep.timeout(-1ULL); ep.write(&r, sizeof r); ep.timeout(200);
                sim::fault_fired("response_header_before_request_complete");
                sim::note("responder: answers tag %llu although its request has not arrived completely, then stalls", (unsigned long long)h.tag);
                if (sim::rnd(2)) {
                    // ... and the connection breaks while the request is still being sent
                    thread_usleep(200 + sim::rnd(2000));
                    PIPE->a2b.reset_errno = ECONNRESET; PIPE->a2b.reset_at = PIPE->a2b.total_read; PIPE->a2b.writable.notify_all();
                    PIPE->b2a.reset_errno = ECONNRESET; PIPE->b2a.reset_at = PIPE->b2a.total_read; PIPE->b2a.readable.notify_all();
                    sim::fault_fired("connection_reset_while_sending");
                } else
                thread_usleep(30000);
                conn_dead = true;           // whatever else were sent would be taken for that response's body: the peer stays silent from now on
            }
            if (buf.size() < sizeof h + h.size) break;
            uint64_t id; memcpy(&id, buf.data() + sizeof h + h.size - sizeof(OpS::Request) + offsetof(OpS::Request, id), 8);   // (id sits at the same place in every kind: fixed body is last)
            // the fixed body is serialized last; find id by kind
            int kind = h.function.method == 1 ? 0 : h.function.method == 2 ? 1 : h.function.method == 4 ? 3 : h.function.method == 5 ? 4 : 2;
            size_t rs = kind == 0 ? sizeof(OpS::Request) : kind == 1 ? sizeof(OpM::Request) : kind >= 3 ? sizeof(OpV::Request) : sizeof(OpL::Request);
            const char* body = buf.data() + sizeof h + h.size - rs;
            size_t ido = kind == 0 ? offsetof(OpS::Request, id) : kind == 1 ? offsetof(OpM::Request, id) : kind >= 3 ? offsetof(OpV::Request, id) : offsetof(OpL::Request, id);
            memcpy(&id, body + ido, 8);
            if (id < calls.size()) { pend.push_back({photon::now + calls[id].delay_us, (int)id, h.tag, h.function.method}); sim::note("responder: request %d arrived (tag %llu)", (int)id, (unsigned long long)h.tag); }
            buf.erase(0, sizeof h + h.size);
        }
        // 2. answer what is due
        std::sort(pend.begin(), pend.end(), [](const Pending& a, const Pending& b) { return a.at_us < b.at_us; });
        if (conn_dead) pend.clear();
        while (!pend.empty() && pend.front().at_us <= photon::now) {
            Pending p = pend.front(); pend.erase(pend.begin());
            CallPlan& c = calls[p.idx];
            if (c.fate == 3) { sim::probe("request_never_answered"); continue; }
            if (answered >= reset_after_resp && cut_inside_body && c.fate == 0) {
                std::string body;
                auto fillresp = [&](auto* r) { r->id = p.idx; r->y = g(p.idx, 0x1000 + p.idx * 7919ULL); for (size_t i = 0; i < sizeof(r->fill); i++) r->fill[i] = gfill(p.idx, i); body.assign((const char*)r, sizeof(*r)); };
                if (c.kind == 4) {
                    body.assign(vlen(p.idx), 0); for (size_t i = 0; i < body.size(); i++) body[i] = gfill(p.idx, i);
                } else if (c.kind == 3) {
                    // serialised by the library's own serializer, as a real server would
                    std::string payload(vlen(p.idx), 0); for (size_t i = 0; i < payload.size(); i++) payload[i] = gfill(p.idx, i);
                    OpV::Response r; r.id = p.idx; r.y = g(p.idx, 0x1000 + p.idx * 7919ULL); r.data.assign(payload.data(), payload.size());
                    SerializerIOV ser; ser.serialize(r);
                    body.clear(); for (auto& v : ser.iov) body.append((const char*)v.iov_base, v.iov_len);
                } else if (c.kind == 0) { OpS::Response r; fillresp(&r); } else if (c.kind == 1) { OpM::Response r; fillresp(&r); } else { auto r = new OpL::Response; fillresp(r); delete r; }
                Header h; h.function = FunctionID(0x7e57, p.fn); h.tag = p.tag; h.size = body.size();
                size_t part = 1 + sim::rnd(body.size() - 1);
                ep.timeout(-1ULL);
                ep.write(&h, sizeof h);
                if (c.gap_us) thread_usleep(c.gap_us);
                ep.write(body.data(), part);
                if (eof_instead) { ep.shutdown(ShutdownHow::Write); sim::fault_fired("server_eof_inside_body"); }
                else { PIPE->b2a.reset_errno = reset_errno; PIPE->b2a.reset_at = PIPE->b2a.total_written; PIPE->b2a.readable.notify_all(); sim::fault_fired("connection_reset_inside_body"); }
                ep.timeout(200);
                sim::note("responder: connection ends after %zu of %zu body bytes of the response to request %d", part, body.size(), p.idx);
                conn_dead = true; pend.clear(); break;
            }
            if (answered >= reset_after_resp) {
                if (eof_instead) { ep.shutdown(ShutdownHow::Write); sim::fault_fired("server_eof"); }
                else { PIPE->b2a.reset_errno = reset_errno; PIPE->b2a.reset_at = PIPE->b2a.total_read; PIPE->b2a.readable.notify_all(); sim::fault_fired("connection_reset"); }
                conn_dead = true; pend.clear(); break;
            }
            if (c.fate == 5) {
                // the server answers under a tag nobody waits for (e.g. a call that gave up long ago), and the payload it returns is
                // arbitrary data: here it looks like a complete response frame for a call that is still waiting, with wrong content
                const Pending* v = nullptr;
                for (auto& q : pend) if (calls[q.idx].fate == 0 && calls[q.idx].kind <= 1) { v = &q; break; }
                if (v) {
                    std::string inner;
                    auto fillwrong = [&](auto* r) { r->id = v->idx; r->y = g(v->idx, 0x1000 + v->idx * 7919ULL) ^ 0xBADBADULL; for (size_t i = 0; i < sizeof(r->fill); i++) r->fill[i] = gfill(v->idx, i); inner.assign((const char*)r, sizeof(*r)); };
                    if (calls[v->idx].kind == 0) { OpS::Response r; fillwrong(&r); } else { OpM::Response r; fillwrong(&r); }
                    Header ih; ih.function = FunctionID(0x7e57, v->fn); ih.tag = v->tag; ih.size = inner.size();
                    std::string body((const char*)&ih, sizeof ih); body += inner;
                    Header h; h.function = FunctionID(0x7e57, p.fn); h.tag = p.tag + 100000; h.size = body.size();
                    ep.timeout(-1ULL);
                    ep.write(&h, sizeof h);
                    if (c.gap_us) thread_usleep(c.gap_us);
                    ep.write(body.data(), body.size());
                    ep.timeout(200);
                    sim::fault_fired("unknown_tag_with_frame_like_payload");
                    sim::note("responder: answered request %d under an unknown tag; its payload looks like a response for call %d", p.idx, v->idx);
                    answered++;
                    continue;
                }
            }
            int copies = c.fate == 2 ? 2 : 1;
            for (int k = 0; k < copies; k++) {
                std::string body;
                auto fillresp = [&](auto* r) { r->id = p.idx; r->y = g(p.idx, 0x1000 + p.idx * 7919ULL); for (size_t i = 0; i < sizeof(r->fill); i++) r->fill[i] = gfill(p.idx, i); body.assign((const char*)r, sizeof(*r)); };
                if (c.kind == 4) {
                    body.assign(vlen(p.idx), 0); for (size_t i = 0; i < body.size(); i++) body[i] = gfill(p.idx, i);
                } else if (c.kind == 3) {
                    // serialised by the library's own serializer, as a real server would
                    std::string payload(vlen(p.idx), 0); for (size_t i = 0; i < payload.size(); i++) payload[i] = gfill(p.idx, i);
                    OpV::Response r; r.id = p.idx; r.y = g(p.idx, 0x1000 + p.idx * 7919ULL); r.data.assign(payload.data(), payload.size());
                    SerializerIOV ser; ser.serialize(r);
                    body.clear(); for (auto& v : ser.iov) body.append((const char*)v.iov_base, v.iov_len);
                } else if (c.kind == 0) { OpS::Response r; fillresp(&r); } else if (c.kind == 1) { OpM::Response r; fillresp(&r); } else { auto r = new OpL::Response; fillresp(r); delete r; }
                Header h; h.function = FunctionID(0x7e57, p.fn); h.tag = (c.fate == 1 || c.fate == 5) ? p.tag + 100000 : p.tag; h.size = body.size();
                if (c.fate == 4) { h.size = body.size() / 2; body.resize(h.size); sim::fault_fired("short_response_body"); }
                if (c.fate == 1 || c.fate == 5) sim::fault_fired("unknown_tag"); if (c.fate == 2 && k == 1) sim::fault_fired("duplicate_response");
                ep.timeout(-1ULL);
                ep.write(&h, sizeof h);
                if (c.gap_us) { thread_usleep(c.gap_us); sim::probe("header_body_gap"); }
                if (c.pieces > 1 && body.size() >= (size_t)c.pieces) {
                    size_t per = body.size() / c.pieces, off = 0;
                    for (int q = 0; q < c.pieces; q++) {
                        size_t n = q == c.pieces - 1 ? body.size() - off : per;
                        ep.write(body.data() + off, n); off += n;
                        if (q + 1 < c.pieces) thread_usleep(c.piece_gap_us);
                    }
                    sim::probe("body_sent_in_pieces");
                } else
                ep.write(body.data(), body.size());
                ep.timeout(200);
            }
            answered++;
            sim::note("responder: answered request %d (fate %d)", p.idx, c.fate);
        }
    }
    sim::NoSched ns; responder_done = 1;
}

}  // namespace

void harness_run(uint64_t seed) {
    phx::quiet_logs();
    n_callers = 2 + sim::rnd(5);
    int hostile = sim::rnd(3);          // 0: benign server (order, delays, fragmentation only), 1: some hostile responses, 2: connection faults too
    static const uint64_t D[] = {0, 0, 30, 100, 300, 1000, 3000, 10000};
    bool tight = sim::rnd(2);
    for (int k = 0; k < n_callers; k++) {
        int n = 1 + sim::rnd(5);
        for (int i = 0; i < n; i++) {
            CallPlan c; c.idx = (int)calls.size(); c.caller = k; c.kind = sim::rnd(6) == 0 ? 2 : sim::rnd(4) == 0 ? 3 + (int)sim::rnd(2) : (int)sim::rnd(2);
            c.delay_us = D[sim::rnd(8)]; c.gap_us = sim::rnd(3) == 0 ? D[2 + sim::rnd(6)] : 0;
            // deadlines around the scripted delays: before the header, between header and body, after everything
            uint64_t total = c.delay_us + c.gap_us;
            // a timeout that fires while the stub reads a header kills the connection (by design), so tight deadlines are
            // rare; the interesting one lies between a response's header and its body
            int t = tight ? sim::rnd(10) : 5 + sim::rnd(5);
            c.timeout_us = t == 0 ? std::max<uint64_t>(1, c.delay_us / 2) : t == 1 ? total + 50 : t <= 4 ? c.delay_us + c.gap_us / 2 + 200 : t <= 6 ? 0 : total * 2 + 20000;
            if (t >= 2 && t <= 4 && c.gap_us < 300) c.gap_us = 300 + D[3 + sim::rnd(5)];
            c.pre_us = sim::rnd(3) == 0 ? D[sim::rnd(6)] : 0;
            int f = sim::rnd(12);
            c.fate = hostile == 0 ? 0 : f == 0 ? 1 : f == 1 ? 2 : f == 2 ? 3 : f == 3 ? 4 : f == 4 ? 5 : 0;
            if ((c.fate == 3 || c.fate == 1 || c.fate == 5) && c.timeout_us == 0) c.timeout_us = 5000;     // a call that is never answered (under its own tag) needs a deadline
            calls.push_back(c);
        }
    }
    n_calls = calls.size();
    real_server = hostile == 0 && sim::rnd(2) == 0;
    per_wait_timeouts = sim::rnd(3) == 0;
    if (hostile && sim::rnd(5) == 0) {
        early_answers = true; small_pipe = 16 + sim::rnd(100);
        for (auto& c : calls) if (c.timeout_us == 0 || c.timeout_us > 20000) c.timeout_us = 2000 + sim::rnd(8000);
    } else if (sim::rnd(6) == 0) small_pipe = 16 + sim::rnd(400);
    if (sim::rnd(3) == 0 && n_callers >= 3) {
        // several deadlines inside one response's header|body gap: the reader is blocked in that body while one caller after
        // another gives up (and signals the others on its way out).  Callers issue their calls one after the other, so the
        // participants are the first calls of the callers: those are in flight together.
        std::vector<int> first(n_callers, -1);
        for (auto& c : calls) if (first[c.caller] < 0) first[c.caller] = c.idx;
        int vk = sim::rnd(n_callers);
        CallPlan& V = calls[first[vk]];
        V.fate = 0; V.pre_us = 0; V.delay_us = D[2 + sim::rnd(4)]; V.gap_us = 1000 + sim::rnd(9000);
        V.timeout_us = sim::rnd(4) == 0 ? 0 : V.delay_us + 100 + sim::rnd(V.gap_us - 100);
        uint64_t window = V.gap_us;
        if (sim::rnd(2)) {
            // the body itself trickles in: over a stream whose timeout bounds each wait, the reader stays inside the target's buffer
            // well past the target's own deadline
            V.pieces = 4 + sim::rnd(7); V.piece_gap_us = 200 + sim::rnd(800); V.gap_us = sim::rnd(50); if (V.kind == 0) V.kind = 1 + sim::rnd(4);
            window = (V.pieces - 1) * V.piece_gap_us;
            V.timeout_us = V.delay_us + V.gap_us + V.piece_gap_us + 100 + sim::rnd(window / 2);
            per_wait_timeouts = true;
            V.gap_us = std::max<uint64_t>(V.gap_us, 1);
        }
        for (int k = 0; k < n_callers; k++) {
            if (k == vk) continue;
            CallPlan& c = calls[first[k]];
            c.pre_us = 0; c.delay_us = V.delay_us + V.gap_us + window + 500 + sim::rnd(3000);      // answered only after V's body
            c.timeout_us = sim::rnd(5) == 0 ? 0 : V.delay_us + 100 + sim::rnd(std::max<uint64_t>(window, 200) - 100);
            if (c.fate == 3 && c.timeout_us == 0) c.timeout_us = 5000;
        }
        sim::probe("deadline_storm_inside_body_gap");
    }
    if (early_answers) for (auto& c : calls) if (c.timeout_us == 0 || c.timeout_us > 20000) c.timeout_us = 2000 + sim::rnd(8000);   // the peer goes silent: every call needs a deadline
    if (hx::param("force_cut", 0)) { hostile = 2; for (auto& c : calls) { c.kind = 3 + (c.idx & 1); c.fate = 0; } }
    if (hostile == 2) { cut_inside_body = sim::rnd(2); reset_after_resp = sim::rnd(n_calls + 1); static const int EN[] = {ECONNRESET, EPIPE, EIO}; reset_errno = EN[sim::rnd(3)]; eof_instead = sim::rnd(2); if (hx::param("force_cut", 0)) { cut_inside_body = true; eof_instead = true; } }
    int s = sim::rnd(4);
    if (s == 1) seg = {1}; else if (s == 2) for (int i = 0; i < 6; i++) seg.push_back(1 + sim::rnd(60)); else if (s == 3) for (int i = 0; i < 6; i++) seg.push_back(1 + sim::rnd(5000));
    char plan[300]; snprintf(plan, sizeof plan, "{\"callers\":%d,\"calls\":%d,\"server\":\"%s\",\"reset_after_responses\":%lld,\"segmentation\":%d}", n_callers, n_calls,
                             real_server ? "the library's Skeleton" : hostile == 0 ? "benign" : hostile == 1 ? "hostile responses" : "hostile + connection faults", (long long)(reset_after_resp == ~0ULL ? -1 : (long long)reset_after_resp), s);
    sim::extra_json("plan", plan);
    char nb[32]; snprintf(nb, sizeof nb, "%d", n_calls); sim::extra_json("nops", nb);
    sim::set_poison_property("use-after-return");
    set_photon_thread_stack_allocator(Delegate<void*, size_t>(&stk_alloc, nullptr), Delegate<void, void*, size_t>(&stk_dealloc, nullptr));
    W.nvcpu = 1;
    for (int k = 0; k < n_callers; k++) W.add(0, [k](int) { caller(k); });
    if (real_server) {
        W.add(0, [](int id) { real_server_thread(id); });
        W.add(0, [](int) { for (;;) { { sim::NoSched ns; if (calls_done == n_calls) break; } thread_usleep(200); } PIPE->a.shutdown(ShutdownHow::Write); });   // the client hangs up
    } else W.add(0, [](int id) { responder(id); });
    W.vcpu_pre = [](int) {
        PIPE = new simstream::Pipe; PIPE->b2a.seg = seg; PIPE->a.tmo_per_wait = per_wait_timeouts; if (small_pipe) PIPE->a2b.capacity = small_pipe;
        STUB = new_rpc_stub(&PIPE->a, false);
        if (real_server) {
            PIPE->a2b.seg = seg;
            SK = new_skeleton(8);
            SK->register_service<OpS, OpM, OpL, OpV>(&SERVICES);
            SK->add_function(FunctionID(0x7e57, 5), Skeleton::Function(&SERVICES, &Services::raw));
        }
    };
    W.vcpu_end = [](int) {
        // (d) nothing is left registered once every call has returned
        int q = STUB->get_queue_count();
        if (q != 0) HX_VIOL("queue-leak", "get_queue_count() = %d after every call has returned", q);
        delete STUB;
        if (real_server) delete SK;
    };
    sim::start();
    W.deadline_ns = sim::now_ns() + 30000000000ULL;
    W.run();
    // hostile-free runs: every call whose deadline left room must have succeeded
    sim::probe("nontrivial");
    sim::finish("ok", "", "rpc callers=%d calls=%d", n_callers, n_calls);
}

// C17 — reading through the cached file system returns exactly the source's bytes and byte counts, while other readers
// refill shared ranges, the pool evicts whole files that are open and being read (on request, by capacity, by disk floor),
// stores expire, and the cache directory is reused by a new pool instance.  Range punching only while the file is idle.
//
// Real code: fs/cache/{cache,cached_fs,store}.cpp, full_file_cache/{cache_pool,cache_store}.cpp, range-lock, ObjectCache,
// Timer, photon scheduler.  Simulated: source and media file systems (SimFS) with latency / EIO / short reads on the source.
#include "phx.h"
#include "simfs.h"
#include <photon/fs/cache/cache.h>
#include <photon/fs/subfs.h>
#include <photon/thread/thread-pool.h>
#include "fs/cache/full_file_cache/cache_pool.h"
#include <string>
#include <algorithm>

using namespace photon;
using namespace photon::fs;

namespace {

phx::World W;
simfs::FS* SRC;
simfs::FS* MEDIA;
ICachedFileSystem* CFS;
FileCachePool* POOL;

struct SrcFile { std::string path; uint64_t size; uint32_t salt; };
std::vector<SrcFile> files;
inline uint8_t content(uint32_t salt, uint64_t off) {
    uint64_t x = (off >> 3) * 0x9E3779B97F4A7C15ULL + (uint64_t)salt * 0xD1B54A32D192ED03ULL;
    x ^= x >> 29; x *= 0xBF58476D1CE4E5B9ULL; x ^= x >> 32;
    return 1 + ((x >> ((off & 7) * 8)) & 0xff) % 255;        // never 0: bytes of a hole are always recognised
}

// configuration of this run
uint64_t refill_unit, period_us, disk_avail, store_ttl_us;
bool async_init, fiemap_ok, async_writeback, src_faults_on;
uint64_t blocks_scale;
int nthreads, nphases;
uint32_t p_eio, p_short;          // per source read, in 1/1000
uint64_t n_src_faults = 0, n_src_reads = 0, n_src_beyond = 0;
char desc[300];

enum Kind { K_READ, K_CLOSE, K_EVICT_FILE, K_RECYCLE, K_PUNCH, K_PREFETCH, K_SLEEP, K_NKINDS };
struct Op { int th, phase, kind, f; uint64_t off, len; int nseg; };
std::vector<Op> plan;
std::vector<int> inflight, punching;
volatile int arrived = 0, phase_now = 0;
volatile bool torn_down = false;

// A pool whose refills may write back to the media asynchronously (ICachePool's thread pool), as the generic
// ICacheStore code supports; FileCachePool itself constructs its base without a thread pool.
struct AsyncPool : FileCachePool {
    using FileCachePool::FileCachePool;
    void enable_async() { m_thread_pool = photon::new_thread_pool(4, 128 * 1024ULL); m_vcpu = photon::get_vcpu(); }
};

void make_cached_fs() {
    auto media_view = new_subfs(MEDIA, "/", false);          // the pool deletes its media fs; the "disk" itself survives
    if (async_writeback) {
        auto p = new AsyncPool(media_view, 1, period_us, disk_avail, refill_unit, store_ttl_us, async_init);
        p->enable_async(); p->Init();
        POOL = p;
        CFS = new_cached_fs(SRC, p, 4096, nullptr);
    } else {
        CFS = new_full_file_cached_fs(SRC, media_view, refill_unit, 1, period_us, disk_avail, nullptr, 0, nullptr, store_ttl_us, async_init);
        if (!CFS) sim::finish("error", "harness", "new_full_file_cached_fs failed");
        POOL = static_cast<FileCachePool*>(CFS->get_pool());
    }
}

void build() {
    static const uint64_t RU[] = {4096, 4096, 8192, 16384, 65536};
    refill_unit = RU[sim::rnd(5)];
    static const uint64_t PER[] = {300, 3000, 50000, 1000000};
    period_us = PER[sim::rnd(4)];
    static const uint64_t TTL[] = {100, 2000, 100000, 10000000};
    store_ttl_us = TTL[sim::rnd(4)];
    async_init = sim::rnd(3) == 0;
    fiemap_ok = sim::rnd(2);
    async_writeback = sim::rnd(10) < 3 && !hx::param("no_async", 0);
    src_faults_on = sim::rnd(3) == 0 && !hx::param("no_faults", 0);
    p_eio = src_faults_on ? 10 + sim::rnd(80) : 0; p_short = src_faults_on ? 10 + sim::rnd(80) : 0;
    static const uint64_t KB[] = {4, 8, 16, 40, 100000};
    uint64_t kblocks = KB[sim::rnd(5)];                       // how many 4 KiB blocks the 1 GiB pool "holds"
    blocks_scale = std::max<uint64_t>(1, (1ULL << 30) / 4096 / kblocks);
    SRC = new simfs::FS; MEDIA = new simfs::FS;
    MEDIA->support_fiemap = fiemap_ok; MEDIA->blocks_scale = blocks_scale;
    disk_avail = 0;
    if (sim::rnd(4) == 0) { MEDIA->capacity_bytes = 4ULL << 30; disk_avail = (4ULL << 30) - (kblocks * 4096 * blocks_scale) / 2; }
    SRC->mkdir("/d", 0755); SRC->mkdir("/d/e", 0755);
    int nf = 1 + sim::rnd(3);
    for (int i = 0; i < nf; i++) {
        SrcFile f; char p[32]; snprintf(p, sizeof p, i == 0 ? "/f%d" : i == 1 ? "/d/f%d" : "/d/e/f%d", i);
        f.path = p; f.salt = 1 + sim::rnd(1000000);
        uint64_t u = refill_unit;
        switch (sim::rnd(7)) {
            case 0: f.size = sim::rnd(3) == 0 ? 0 : 1 + sim::rnd(100); break;
            case 1: f.size = 4096 * (1 + sim::rnd(6)); break;
            case 2: f.size = u * (1 + sim::rnd(3)); break;
            case 3: f.size = u * (1 + sim::rnd(3)) + 1 + sim::rnd(4095); break;
            case 4: f.size = u * (1 + sim::rnd(2)) - 1 - sim::rnd(300); break;
            default: f.size = 1 + sim::rnd(40000); break;
        }
        if (f.size > 150000) f.size = 150000 - sim::rnd(5000);
        std::string data(f.size, 0);
        for (uint64_t k = 0; k < f.size; k++) data[k] = (char)content(f.salt, k);
        auto h = SRC->open(p, O_CREAT | O_RDWR); h->pwrite(data.data(), data.size(), 0); delete h;
        files.push_back(f);
    }
    inflight.assign(nf, 0); punching.assign(nf, 0);
    // latency and faults of the source, latency of the media
    SRC->policy = [](const simfs::Req& r) {
        simfs::Action a;
        if (r.kind == simfs::OP_PREAD) {
            n_src_reads++;
            a.delay_us = sim::rnd(4) == 0 ? 0 : 1 + sim::rnd(sim::rnd(3) ? 60 : 900);
            if (p_eio && sim::rnd(1000) < p_eio) { a.err = EIO; n_src_faults++; sim::fault_fired("src_read_eio"); }
            else if (p_short && r.len > 1 && sim::rnd(1000) < p_short) { a.limit = sim::rnd(r.len); n_src_faults++; sim::fault_fired("src_read_short"); }
        }
        return a;
    };
    SRC->monitor = [](const simfs::Req& r) {
        if (r.kind != simfs::OP_PREAD) return;
        for (auto& f : files) if (f.path == r.path && r.off + r.len > f.size && r.off < f.size) { n_src_beyond++; }
    };
    MEDIA->policy = [](const simfs::Req& r) {
        simfs::Action a;
        if (r.kind == simfs::OP_PREAD || r.kind == simfs::OP_PWRITE) a.delay_us = sim::rnd(3) == 0 ? 0 : 1 + sim::rnd(sim::rnd(4) ? 40 : 600);
        return a;
    };
    // the plan
    nthreads = 1 + sim::rnd(5);
    nphases = sim::rnd(3) == 0 ? 2 : 1;
    int nops = 4 + sim::rnd(36);
    for (int i = 0; i < nops; i++) {
        Op o; o.th = sim::rnd(nthreads); o.phase = sim::rnd(nphases); o.f = sim::rnd(nf);
        int k = sim::rnd(100);
        o.kind = k < 62 ? K_READ : k < 68 ? K_CLOSE : k < 78 ? K_EVICT_FILE : k < 83 ? K_RECYCLE : k < 88 ? K_PUNCH : k < 94 ? K_PREFETCH : K_SLEEP;
        uint64_t size = files[o.f].size, u = refill_unit;
        o.off = size == 0 ? sim::rnd(10) : sim::rnd(4) == 0 ? (sim::rnd(size / 4096 + 1) * 4096) : sim::rnd(5) == 0 ? (sim::rnd(size / u + 1) * u + sim::rnd(3) - 1) : sim::rnd(size + 10);
        if ((int64_t)o.off < 0) o.off = 0;
        switch (sim::rnd(6)) {
            case 0: o.len = sim::rnd(64); break;
            case 1: o.len = 4096 * (1 + sim::rnd(4)); break;
            case 2: o.len = size > o.off ? size - o.off + sim::rnd(3) * sim::rnd(200) : sim::rnd(100); break;    // up to / past the end
            case 3: o.len = sim::rnd(3 * u); break;
            default: o.len = sim::rnd(20000); break;
        }
        if (o.kind == K_SLEEP) o.len = 1 + sim::rnd(sim::rnd(3) ? 400 : 200000);
        o.nseg = sim::rnd(3) == 0 ? 1 : 1 + sim::rnd(6);
        plan.push_back(o);
    }
    snprintf(desc, sizeof desc, "%d file(s), %d reader thread(s), %d phase(s), refill unit %llu, pool holds ~%llu blocks, eviction period %llu us, store TTL %llu us, %s%s%s%s",
             nf, nthreads, nphases, (unsigned long long)refill_unit, (unsigned long long)kblocks, (unsigned long long)period_us, (unsigned long long)store_ttl_us,
             fiemap_ok ? "fiemap" : "in-memory range map", async_init ? ", async init" : "", async_writeback ? ", async write-back" : "", src_faults_on ? ", source faults" : "");
}

static const size_t GUARD = 16;
struct Buf {
    std::string mem; std::vector<struct iovec> iov; std::vector<size_t> seg_off;
    void make(size_t len, int nseg) {
        std::vector<size_t> cuts;
        for (int i = 1; i < nseg; i++) cuts.push_back(len ? sim::rnd(len + 1) : 0);
        std::sort(cuts.begin(), cuts.end()); cuts.push_back(len);
        mem.assign(len + (cuts.size() + 1) * GUARD, (char)0xEE);
        size_t prev = 0, pos = GUARD;
        for (size_t c : cuts) {
            size_t n = c - prev;
            iov.push_back({&mem[0] + pos, n}); seg_off.push_back(prev);
            memset(&mem[0] + pos, 0xA5, n);
            pos += n + GUARD; prev = c;
        }
    }
    // logical byte k
    uint8_t at(size_t k) const {
        for (size_t i = iov.size(); i-- > 0;) if (k >= seg_off[i] && k < seg_off[i] + iov[i].iov_len) return ((uint8_t*)iov[i].iov_base)[k - seg_off[i]];
        return 0;
    }
    bool guards_ok() const {
        size_t pos = 0;
        for (size_t i = 0; i <= iov.size(); i++) {
            for (size_t g = 0; g < GUARD; g++) if ((uint8_t)mem[pos + g] != 0xEE) return false;
            if (i < iov.size()) pos += GUARD + iov[i].iov_len;
        }
        return true;
    }
};

void worker(int id) {
    auto& rec = W.threads[id];
    std::vector<IFile*> h(files.size(), nullptr);
    for (int ph = 0; ph < nphases; ph++) {
        while (phase_now < ph) photon::thread_usleep(50);
        for (size_t i = 0; i < plan.size(); i++) {
            const Op& o = plan[i];
            if (o.th != id || o.phase != ph || hx::dropped(i)) continue;
            const SrcFile& sf = files[o.f];
            auto need_handle = [&]() {
                if (h[o.f]) return;
                phx::Where w(rec, "open", i);
                h[o.f] = CFS->open(sf.path.c_str(), O_RDONLY);
                if (!h[o.f]) HX_VIOL("open", "%s: opening %s through the cached fs failed (errno %d) although nothing was injected on that path", desc, sf.path.c_str(), errno);
            };
            switch (o.kind) {
            case K_READ: {
                need_handle();
                while (punching[o.f]) photon::thread_usleep(20);
                inflight[o.f]++;
                Buf b; b.make(o.len, o.nseg);
                uint64_t faults0 = n_src_faults;
                ssize_t rc;
                { phx::Where w(rec, "preadv", i); rc = h[o.f]->preadv(b.iov.data(), b.iov.size(), o.off); }
                inflight[o.f]--;
                bool faulted = n_src_faults != faults0;
                uint64_t expect = o.off >= sf.size ? 0 : std::min<uint64_t>(o.len, sf.size - o.off);
                sim::note("op %zu th%d: preadv(%s, offset %llu, length %llu, %d segment(s)) = %zd (source size %llu%s)", i, id, sf.path.c_str(), (unsigned long long)o.off,
                          (unsigned long long)o.len, o.nseg, rc, (unsigned long long)sf.size, faulted ? ", a source fault fired meanwhile" : "");
                if (!b.guards_ok()) HX_VIOL("overrun", "%s: preadv(%s, offset %llu, length %llu) wrote outside the caller's iovec segments", desc, sf.path.c_str(), (unsigned long long)o.off, (unsigned long long)o.len);
                if (rc > (ssize_t)expect)
                    HX_VIOL("beyond-size", "%s: preadv(%s, offset %llu, length %llu) returned %zd but the source file has only %llu bytes there", desc, sf.path.c_str(),
                            (unsigned long long)o.off, (unsigned long long)o.len, rc, (unsigned long long)expect);
                if (rc != (ssize_t)expect && !faulted)
                    HX_VIOL("count", "%s: preadv(%s, offset %llu, length %llu) returned %zd (errno %d), the source gives %llu; no source read failed or was short during the call",
                            desc, sf.path.c_str(), (unsigned long long)o.off, (unsigned long long)o.len, rc, rc < 0 ? errno : 0, (unsigned long long)expect);
                if (rc < -1) HX_VIOL("count", "%s: preadv returned %zd", desc, rc);
                for (ssize_t k = 0; k < rc; k++)
                    if (b.at(k) != content(sf.salt, o.off + k))
                        HX_VIOL("data", "%s: preadv(%s, offset %llu, length %llu) = %zd returned byte 0x%02x at file offset %llu, the source holds 0x%02x%s", desc, sf.path.c_str(),
                                (unsigned long long)o.off, (unsigned long long)o.len, rc, b.at(k), (unsigned long long)(o.off + k), content(sf.salt, o.off + k),
                                faulted ? " (a source read failed meanwhile, but returned bytes must still be the source's)" : "");
                if (rc == (ssize_t)expect && expect) sim::probe(faulted ? "read_ok_despite_fault" : "read_ok");
                if (rc != (ssize_t)expect) sim::probe("read_failed_under_fault");
                break; }
            case K_CLOSE:
                if (h[o.f]) { phx::Where w(rec, "close", i); delete h[o.f]; h[o.f] = nullptr; sim::note("op %zu th%d: close %s", i, id, sf.path.c_str()); }
                break;
            case K_EVICT_FILE: {
                phx::Where w(rec, "pool-evict", i);
                int r = POOL->evict(sf.path);
                sim::note("op %zu th%d: pool->evict(%s) = %d (reads in flight on it: %d)", i, id, sf.path.c_str(), r, inflight[o.f]);
                if (inflight[o.f]) sim::probe("evict_file_with_read_in_flight");
                break; }
            case K_RECYCLE: {
                phx::Where w(rec, "recycle", i);
                POOL->forceRecycle();
                sim::note("op %zu th%d: forceRecycle()", i, id);
                break; }
            case K_PUNCH: {
                need_handle();
                // range-level eviction is only defined while the file has no read in flight: wait for that, keep readers out
                while (punching[o.f]) photon::thread_usleep(20);
                punching[o.f] = 1;
                { phx::Where w(rec, "punch-wait-idle", i); while (inflight[o.f]) photon::thread_usleep(20); }
                int r;
                // either a byte range is punched out, or (every third time) everything from an offset to the end is dropped
                bool tail = (o.off + o.len + i) % 3 == 0;
                { phx::Where w(rec, "punch", i); r = static_cast<ICachedFile*>(h[o.f])->evict(tail ? (o.off / 4096) * 4096 : o.off, tail ? (size_t)-1 : (o.len ? o.len : 1)); }
                if (tail) sim::probe("tail_dropped_from_offset");
                punching[o.f] = 0;
                sim::note("op %zu th%d: evict range (%s, offset %llu, length %llu) = %d", i, id, sf.path.c_str(), (unsigned long long)o.off, (unsigned long long)o.len, r);
                sim::probe("range_punch");
                break; }
            case K_PREFETCH: {
                need_handle();
                while (punching[o.f]) photon::thread_usleep(20);
                inflight[o.f]++;
                int r;
                { phx::Where w(rec, "prefetch", i); r = h[o.f]->fadvise(o.off, o.len, POSIX_FADV_WILLNEED); }
                inflight[o.f]--;
                sim::note("op %zu th%d: prefetch(%s, offset %llu, length %llu) = %d", i, id, sf.path.c_str(), (unsigned long long)o.off, (unsigned long long)o.len, r);
                break; }
            case K_SLEEP: { phx::Where w(rec, "sleep", i); photon::thread_usleep(o.len); break; }
            }
        }
        { phx::Where w(rec, "close-all", -1); for (auto& x : h) if (x) { delete x; x = nullptr; } }
        { sim::NoSched ns; arrived++; }
    }
}

void controller(int id) {
    auto& rec = W.threads[id];
    for (int ph = 0; ph < nphases; ph++) {
        { phx::Where w(rec, "wait-phase-end", ph); while (arrived < nthreads * (ph + 1)) photon::thread_usleep(100); }
        if (sim::rnd(2)) photon::thread_usleep(sim::rnd(3) ? sim::rnd(3000) : sim::rnd(300000));
        {
            phx::Where w(rec, "delete-cached-fs", ph);
            delete CFS; CFS = nullptr; POOL = nullptr;
        }
        if (ph + 1 < nphases) {
            phx::Where w(rec, "new-cached-fs", ph);
            make_cached_fs();                      // a new pool instance over the same cache directory
            sim::probe("pool_restart");
            { sim::NoSched ns; phase_now = ph + 1; }
        }
    }
    if (SRC->open_files != 0) HX_VIOL("leak", "%s: %d source file(s) still open after every cached file was closed and the cached fs deleted", desc, SRC->open_files);
    torn_down = true;
}

}  // namespace

void harness_run(uint64_t seed) {
    phx::quiet_logs();
    build();
    W.nvcpu = 1;
    for (int t = 0; t < nthreads; t++) W.add(0, [](int id) { worker(id); });
    W.add(0, [](int id) { controller(id); });
    W.vcpu_pre = [](int) { make_cached_fs(); };
    char nb[16]; snprintf(nb, sizeof nb, "%zu", plan.size());
    sim::extra_json("nops", nb);
    char pl[400]; snprintf(pl, sizeof pl, "\"%s\"", desc);
    sim::extra_json("plan", pl);
    sim::cfg.max_steps = 60000000;
    sim::start();
    W.deadline_ns = sim::now_ns() + 120000000000ULL;
    W.run();
    if (n_src_beyond) sim::probe("src_read_crosses_eof");
    if (n_src_reads) sim::probe("nontrivial");
    sim::finish("ok", "", "%s; %llu source reads, %llu faulted", desc, (unsigned long long)n_src_reads, (unsigned long long)n_src_faults);
}

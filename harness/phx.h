// phx — shared scaffolding for harnesses that run photon threads on 1..N vCPUs,
// each vCPU being one OS task of the simulator.
#pragma once
#include "harness.h"
#include <photon/thread/thread.h>
#include <photon/common/timeout.h>
#include <photon/common/alog.h>
#include <functional>
#include <thread>
#include <vector>
#include <string>
#include <errno.h>
#include <string.h>

namespace phx {

struct ThreadRec {
    int id = 0, vcpu = 0;
    std::function<void(int)> body;     // argument: thread id
    photon::thread* th = nullptr;
    volatile bool started = false, done = false;
    const char* where = "not-started";
    int op = -1;                        // operation index being executed (diagnostics)
};

struct World {
    int nvcpu = 1;
    std::vector<ThreadRec> threads;
    std::vector<photon::vcpu_base*> vcpus;
    std::vector<uint64_t> vcpu_flags;
    uint64_t stack_size = 256 * 1024;
    uint64_t deadline_ns = 0;           // absolute sim time after which unfinished threads are "stuck"
    volatile int ndone = 0, vcpus_up = 0, vcpus_down = 0;
    std::function<void(World&)> on_stuck;
    std::function<void(int)> vcpu_pre;     // optional per-vCPU hook right after vcpu_init, before any script thread exists anywhere
    std::function<void(int)> vcpu_end;     // optional per-vCPU hook after all its threads were joined
    std::function<void(int)> vcpu_extra;   // optional per-vCPU hook run on its main photon thread after spawning
    bool fini = true;

    int add(int vcpu, std::function<void(int)> body) {
        ThreadRec r; r.id = (int)threads.size(); r.vcpu = vcpu; r.body = std::move(body);
        threads.push_back(std::move(r));
        return threads.back().id;
    }
    bool all_done() const { return ndone == (int)threads.size(); }

    static void* entry(void* a) {
        auto* p = (std::pair<World*, int>*)a;
        World* w = p->first; int id = p->second;
        { sim::NoSched ns; delete p; }
        ThreadRec& r = w->threads[id];
        r.started = true; r.where = "running";
        r.body(id);
        { sim::NoSched ns; r.where = "finished"; r.done = true; w->ndone++; sim::ev(0xD07E, id); }
        // stay alive (and interruptible) until every script is over, so that nobody
        // interrupts or inspects a thread whose stack has been released
        while (!w->all_done()) photon::thread_usleep(10000);
        return nullptr;
    }

    void vcpu_main(int v) {
        int r = photon::vcpu_init(vcpu_flags.empty() ? 0 : vcpu_flags[v]);
        if (r < 0) sim::finish("error", "harness", "vcpu_init failed");
        if (vcpu_pre) vcpu_pre(v);
        { sim::NoSched ns; vcpus[v] = photon::get_vcpu(); vcpus_up++; }
        // wait until all vCPUs are up, so cross-vCPU operations have valid targets
        while (vcpus_up < nvcpu) photon::thread_usleep(100);
        std::vector<photon::join_handle*> jh;
        for (auto& t : threads) {
            if (t.vcpu != v) continue;
            auto* p = new std::pair<World*, int>(this, t.id);
            t.th = photon::thread_create(&entry, p, stack_size);
            if (!t.th) sim::finish("error", "harness", "thread_create failed");
            jh.push_back(photon::thread_enable_join(t.th));
        }
        if (vcpu_extra) vcpu_extra(v);
        while (!all_done()) {
            if (sim::now_ns() > deadline_ns) {
                sim::NoSched ns;
                if (on_stuck) on_stuck(*this);
                std::string s;
                for (auto& t : threads) if (!t.done) { char b[128]; snprintf(b, sizeof b, " th%d(vcpu%d):%s@op%d[st%d]", t.id, t.vcpu, t.where, t.op, t.th ? (int)photon::thread_stat(t.th) : -1); s += b; }
                { char b[96]; snprintf(b, sizeof b, " | detected on vcpu%d photon::now=%llu sim_us=%llu", v, (unsigned long long)photon::now, (unsigned long long)(sim::now_ns() / 1000)); s += b; }
                sim::finish("viol", "stuck", "threads still blocked at sim deadline:%s", s.c_str());
            }
            photon::thread_usleep(2500);
        }
        for (auto h : jh) photon::thread_join(h);
        if (vcpu_end) vcpu_end(v);
        { sim::NoSched ns; vcpus_down++; }
        if (fini) {
            // a vCPU may only go away when nobody can touch it any more
            while (vcpus_down < nvcpu) photon::thread_usleep(300);
            photon::vcpu_fini();
        }
    }

    // Runs the world; returns when every vCPU task has finished.
    void run() {
        vcpus.assign(nvcpu, nullptr);
        std::vector<std::thread> os;
        for (int v = 0; v < nvcpu; v++) os.emplace_back([this, v] { vcpu_main(v); });
        for (auto& t : os) t.join();
    }
};

inline void quiet_logs() {
    log_output_level = ALOG_FATAL + 1;
    log_output = log_output_null;
}

struct Where {
    ThreadRec& r; const char* prev;
    Where(ThreadRec& r_, const char* w, int op) : r(r_), prev(r_.where) { r.where = w; r.op = op; }
    ~Where() { r.where = prev; }
};

}  // namespace phx

// C09 — go-style channel<T>: a value reported sent is received exactly once, in order;
// send/recv fail only by close() or timeout; blocked parties are released when a partner/slot/item exists.
#include "phx.h"
#include <photon/thread/go.h>
#include <map>
#include <set>
#include <time.h>

using namespace photon;

void run_script(int t);

namespace {

int val_live = 0, val_ctor = 0, val_dtor = 0;
struct Val {
    int s = -1, q = -1;
    uint64_t magic = 0xC0FFEE;
    Val() { sim::NoSched ns; val_live++; val_ctor++; }
    Val(int s_, int q_) : s(s_), q(q_) { sim::NoSched ns; val_live++; val_ctor++; }
    Val(const Val& r) : s(r.s), q(r.q) { sim::NoSched ns; if (r.magic != 0xC0FFEE) HX_VIOL("value-corrupt", "copy of a destroyed value"); val_live++; val_ctor++; }
    Val(Val&& r) : s(r.s), q(r.q) { sim::NoSched ns; if (r.magic != 0xC0FFEE) HX_VIOL("value-corrupt", "move of a destroyed value"); val_live++; val_ctor++; }
    Val& operator=(const Val& r) { if (r.magic != 0xC0FFEE) HX_VIOL("value-corrupt", "assignment from a destroyed value"); s = r.s; q = r.q; return *this; }
    Val& operator=(Val&& r) { if (r.magic != 0xC0FFEE) HX_VIOL("value-corrupt", "assignment from a destroyed value"); s = r.s; q = r.q; return *this; }
    ~Val() { sim::NoSched ns; if (magic != 0xC0FFEE) HX_VIOL("value-corrupt", "value (%d,%d) destroyed twice", s, q); magic = 0xDEAD; val_live--; val_dtor++; }
};

enum { OP_SEND, OP_TRYSEND, OP_RECV, OP_TRYRECV, OP_PAUSE, OP_CLOSE };
struct Op { int idx, k; bool inf = false; uint64_t timeout_us = 0, pause_us = 0; };

struct Call {            // one send or recv call, stamped with the global event sequence and simulated time
    int th, op; bool is_send, is_try, inf;
    uint64_t seq0, t0_ns, seq1 = 0, t1_ns = 0;
    bool done = false, ok = false; int en = 0;
    int s = -1, q = -1;  // value sent / received
    uint64_t exp = 0;    // deadline in photon::now units
    bool closed_before_call = false, closed_before_return = false;
};

phx::World W;
channel<Val>* CH;
size_t cap;
std::vector<std::vector<Op>> scripts;
std::vector<int> role;          // 0 sender 1 receiver 2 closer
std::vector<int> next_seq;      // per sender
std::vector<Call> calls;
uint64_t g_seq = 0;
volatile bool close_invoked = false, close_returned = false;
uint64_t close_seq = 0;      // global event sequence number at which close() was invoked (0 = never)
int n_ops = 0, n_send = 0, n_recv = 0;
struct TState { volatile int cur = -1; };
std::vector<TState> tst;
volatile uint64_t last_activity_ns = 0;
bool timing_verdicts = false;
const uint64_t T_US[] = {1, 20, 50, 100, 200, 500, 1000, 3000, 10000};

bool choreo = false;
void gen_plan() {
    W.nvcpu = 1 + sim::rnd(3);
    static const size_t CAPS[] = {0, 0, 1, 1, 2, 4};
    cap = CAPS[sim::rnd(6)];
    n_send = 1 + sim::rnd(3); n_recv = 1 + sim::rnd(3);
    bool with_close = sim::rnd(2);
    int nth = n_send + n_recv + (with_close ? 1 : 0);
    scripts.resize(nth); role.resize(nth); next_seq.assign(nth, 0); tst.resize(nth + 1);
    int infp = sim::rnd(3);   // 0: no untimed ops, 1: some, 2: many
    if (sim::rnd(6) == 0 && !hx::param("no_choreo", 0)) {
        // the last item and the close arrive back to back, from another vCPU, while receivers poll a buffered channel
        W.nvcpu = 2 + sim::rnd(2); cap = 1 + sim::rnd(4); n_send = 1; n_recv = 1 + sim::rnd(3);
        int nth2 = n_send + n_recv;
        scripts.assign(nth2, {}); role.assign(nth2, 0); next_seq.assign(nth2, 0); tst.resize(nth2 + 1);
        for (int t = 0; t < nth2; t++) {
            role[t] = t < n_send ? 0 : 1;
            if (role[t] == 0) {
                int n = 1 + sim::rnd(3);
                for (int i = 0; i < n; i++) {
                    Op p0; p0.idx = n_ops++; p0.k = OP_PAUSE; p0.pause_us = T_US[sim::rnd(5)]; scripts[t].push_back(p0);
                    Op o; o.idx = n_ops++; o.k = OP_SEND; o.inf = false; o.timeout_us = T_US[4 + sim::rnd(4)]; scripts[t].push_back(o);
                }
                Op c; c.idx = n_ops++; c.k = OP_CLOSE; scripts[t].push_back(c);
            } else {
                int n = 4 + sim::rnd(12);
                for (int i = 0; i < n; i++) { Op o; o.idx = n_ops++; o.k = sim::rnd(4) == 0 ? OP_TRYRECV : OP_RECV; o.inf = false; o.timeout_us = T_US[sim::rnd(4)]; scripts[t].push_back(o); }
            }
        }
        choreo = true;
        return;
    }
    if (sim::rnd(6) == 0 && !hx::param("no_choreo", 0)) {
        // rendezvous under pressure: a sender with a very short deadline, a second sender right behind it and a receiver on
        // another vCPU, all without a closer; whoever is left waiting with a partner available shows up at quiescence
        W.nvcpu = 2 + sim::rnd(2); cap = 0; n_send = 2 + sim::rnd(2); n_recv = 1 + sim::rnd(2);
        int nth2 = n_send + n_recv;
        scripts.assign(nth2, {}); role.assign(nth2, 0); next_seq.assign(nth2, 0); tst.resize(nth2 + 1);
        for (int t = 0; t < nth2; t++) {
            role[t] = t < n_send ? 0 : 1;
            int n = 1 + sim::rnd(4);
            for (int i = 0; i < n; i++) {
                Op o; o.idx = n_ops++;
                if (role[t] == 0) { o.k = OP_SEND; o.inf = t != 0 && sim::rnd(2); o.timeout_us = t == 0 ? T_US[sim::rnd(3)] : T_US[3 + sim::rnd(6)]; }
                else { o.k = OP_RECV; o.inf = sim::rnd(2); o.timeout_us = T_US[4 + sim::rnd(5)]; }
                if (t != 0 && i == 0 && sim::rnd(2)) { Op p0; p0.idx = o.idx; p0.k = OP_PAUSE; p0.pause_us = T_US[sim::rnd(3)]; o.idx = n_ops++; scripts[t].push_back(p0); }
                scripts[t].push_back(o);
            }
        }
        choreo = true;
        return;
    }
    for (int t = 0; t < nth; t++) {
        role[t] = t < n_send ? 0 : (t < n_send + n_recv ? 1 : 2);
        if (role[t] == 2) {
            Op p; p.idx = n_ops++; p.k = OP_PAUSE; p.pause_us = T_US[sim::rnd(9)]; scripts[t].push_back(p);
            Op c; c.idx = n_ops++; c.k = OP_CLOSE; scripts[t].push_back(c);
            continue;
        }
        int n = 1 + sim::rnd(8);
        for (int i = 0; i < n; i++) {
            Op o; o.idx = n_ops++;
            int r = sim::rnd(10);
            if (r == 0) { o.k = OP_PAUSE; o.pause_us = sim::rnd(3) ? T_US[sim::rnd(8)] : 0; }
            else if (r <= 2) o.k = role[t] == 0 ? OP_TRYSEND : OP_TRYRECV;
            else { o.k = role[t] == 0 ? OP_SEND : OP_RECV; o.inf = infp && sim::rnd(infp == 1 ? 4 : 2) == 0; o.timeout_us = T_US[sim::rnd(9)]; }
            scripts[t].push_back(o);
        }
    }
}

int begin_call(int t, const Op& o, bool is_send, bool is_try, const Timeout& tmo, int s, int q) {
    sim::NoSched ns;
    Call c; c.th = t; c.op = o.idx; c.is_send = is_send; c.is_try = is_try; c.inf = o.inf && !is_try;
    c.seq0 = ++g_seq; c.t0_ns = sim::now_ns(); c.s = s; c.q = q; c.exp = tmo.expiration(); c.closed_before_call = close_invoked;
    calls.push_back(c);
    int ci = (int)calls.size() - 1;
    tst[t].cur = ci; last_activity_ns = sim::now_ns();
    sim::ev(is_send ? 0x5E0D : 0x4EC7, t, o.idx);
    return ci;
}
void end_call(int t, int ci, bool ok, int en, int s, int q) {
    sim::NoSched ns;
    Call& c = calls[ci];
    c.done = true; c.ok = ok; c.en = en; c.seq1 = ++g_seq; c.t1_ns = sim::now_ns(); c.closed_before_return = close_invoked;
    if (!c.is_send) { c.s = s; c.q = q; }
    tst[t].cur = -1; last_activity_ns = sim::now_ns();
    sim::note("th%d op%d %s%s -> %s errno %d value (%d,%d)", t, c.op, c.is_try ? "try_" : "", c.is_send ? "send" : "recv", ok ? "true" : "false", ok ? 0 : en, c.s, c.q);
    if (!ok && !c.is_try) {
        sim::probe("nontrivial");
        // (b) a blocking call fails only because of close() or an expired timeout
        bool timed_out = !c.inf && photon::now >= c.exp;
        if (!c.closed_before_return && !timed_out)
            HX_VIOL("spurious-failure", "%s of th%d returned false (errno %d) although close() had not been called and its deadline had not passed (op %d)",
                    c.is_send ? "send" : "recv", t, en, c.op);
        if (timed_out && !c.closed_before_return) sim::probe(c.is_send ? "send_timed_out" : "recv_timed_out");
    }
}

}  // namespace

void run_script(int t) {
    phx::ThreadRec& me = W.threads[t];
    for (auto& o : scripts[t]) {
        if (hx::dropped(o.idx)) continue;
        switch (o.k) {
        case OP_PAUSE: { phx::Where w(me, "pause", o.idx); if (o.pause_us) thread_usleep(o.pause_us); else thread_yield(); break; }
        case OP_CLOSE: {
            { sim::NoSched ns; close_invoked = true; close_seq = ++g_seq; sim::ev(0xC105E); sim::note("th%d close()", t); last_activity_ns = sim::now_ns(); }
            { phx::Where w(me, "close", o.idx); CH->close(); }
            { sim::NoSched ns; close_returned = true; }
            break; }
        case OP_SEND: case OP_TRYSEND: {
            bool is_try = o.k == OP_TRYSEND;
            Timeout tmo; if (!is_try && !o.inf) tmo = Timeout(o.timeout_us);
            int q = next_seq[t];
            int ci = begin_call(t, o, true, is_try, tmo, t, q);
            bool ok;
            { phx::Where w(me, is_try ? "try_send" : (o.inf ? "send(inf)" : "send(timed)"), o.idx);
              ok = is_try ? CH->try_send(Val(t, q)) : CH->send(Val(t, q), tmo); }
            int en = errno;
            if (ok) next_seq[t]++;
            end_call(t, ci, ok, en, t, q);
            break; }
        case OP_RECV: case OP_TRYRECV: {
            bool is_try = o.k == OP_TRYRECV;
            Timeout tmo; if (!is_try && !o.inf) tmo = Timeout(o.timeout_us);
            int ci = begin_call(t, o, false, is_try, tmo, -1, -1);
            Val v; bool ok;
            { phx::Where w(me, is_try ? "try_recv" : (o.inf ? "recv(inf)" : "recv(timed)"), o.idx);
              ok = is_try ? CH->try_recv(v) : CH->recv(v, tmo); }
            int en = errno;
            end_call(t, ci, ok, en, v.s, v.q);
            break; }
        }
    }
}

namespace {

// controller: at quiescence evaluates who is still blocked, then closes the channel to let everybody go
void controller(int self_id) {
    phx::ThreadRec& me = W.threads[self_id];
    const uint64_t SETTLE = 100 * 1000 * 1000;
    for (;;) {
        { phx::Where w(me, "ctrl-poll", -1); thread_usleep(5000); }
        bool do_close = false;
        {
            sim::NoSched ns;
            bool all = true;
            for (int t = 0; t < (int)scripts.size(); t++) if (!W.threads[t].done) all = false;
            if (all) return;
            uint64_t now = sim::now_ns();
            if (now - last_activity_ns < SETTLE) continue;
            int bs = 0, br = 0; bool quiescent = true;
            for (int t = 0; t < (int)scripts.size(); t++) {
                if (W.threads[t].done) continue;
                int ci = tst[t].cur;
                if (ci < 0 || !calls[ci].inf || now - calls[ci].t0_ns < SETTLE) { quiescent = false; break; }
                if (calls[ci].is_send) bs++; else br++;
            }
            if (!quiescent || (bs + br) == 0) continue;
            sim::probe("quiescent_with_blocked"); sim::probe("nontrivial");
            if (!close_invoked) {
                size_t sz = CH->size();
                if (bs && br)
                    HX_VIOL("stuck-pair", "quiescent: %d sender(s) and %d receiver(s) are blocked on the same open channel (capacity %zu, %zu buffered)", bs, br, cap, sz);
                if (br && sz > 0)
                    HX_VIOL("stuck-receiver", "quiescent: %d receiver(s) blocked although %zu item(s) are buffered (capacity %zu)", br, sz, cap);
                if (bs && cap > 0 && sz < cap)
                    HX_VIOL("stuck-sender", "quiescent: %d sender(s) blocked although only %zu of %zu slots are used", bs, sz, cap);
                do_close = true; close_invoked = true; close_seq = ++g_seq; sim::note("controller closes the channel (%d senders, %d receivers blocked)", bs, br);
                last_activity_ns = now;
            } else if (close_returned)
                HX_VIOL("stuck-after-close", "quiescent after close() returned: %d sender(s) and %d receiver(s) still blocked", bs, br);
        }
        if (do_close) { CH->close(); sim::NoSched ns; close_returned = true; last_activity_ns = sim::now_ns(); }
    }
}

void history_oracles(std::vector<Val>& drained) {
    // (a) exactly-once, nothing invented, per-sender order
    std::map<std::pair<int, int>, int> sent, got;
    for (auto& c : calls) if (c.is_send && c.ok) sent[{c.s, c.q}]++;
    std::vector<const Call*> recvs;
    for (auto& c : calls) if (!c.is_send && c.ok) { got[{c.s, c.q}]++; recvs.push_back(&c); }
    for (auto& v : drained) got[{v.s, v.q}]++;
    for (auto& kv : got) {
        if (!sent.count(kv.first)) {
            // a value whose send() reported failure may still have been delivered only if ... never: a failed send must not deliver
            HX_VIOL("phantom-value", "value (%d,%d) was received but no send of it returned true", kv.first.first, kv.first.second);
        }
        if (kv.second > 1) HX_VIOL("duplicate", "value (%d,%d) was received %d times", kv.first.first, kv.first.second, kv.second);
    }
    for (auto& kv : sent) if (!got.count(kv.first))
        HX_VIOL("lost-value", "send of value (%d,%d) returned true but it was never received (capacity %zu, %d senders, %d receivers)", kv.first.first, kv.first.second, cap, n_send, n_recv);
    // order: a recv that returned before another recv began must not hold a later element of the same sender
    for (auto a : recvs) for (auto b : recvs)
        if (a != b && a->s == b->s && a->seq1 < b->seq0 && a->q > b->q)
            HX_VIOL("order", "values of sender %d out of order: (%d,%d) was received (call finished at seq %llu) before (%d,%d) whose recv began later (seq %llu)",
                    a->s, a->s, a->q, (unsigned long long)a->seq1, b->s, b->q, (unsigned long long)b->seq0);
    // (c) closed is reported only when nothing is buffered
    size_t ok_recv_done;
    for (auto& r : calls) {
        if (r.is_send || r.ok || r.is_try || !r.done || cap == 0) continue;
        bool by_timeout = !r.inf && r.en == ETIMEDOUT;
        if (by_timeout) continue;
        // values certainly buffered when the call reported 'closed': sent-true before it began or before close() was invoked
        // (those are "the buffered items" at close), minus every other receive that could have taken one
        long supply = 0, takers = 0;
        uint64_t horizon = std::max<uint64_t>(r.seq0, r.closed_before_return ? close_seq : 0);
        for (auto& c : calls) {
            if (&c == &r) continue;
            if (c.is_send && c.ok && c.seq1 < horizon) supply++;
            if (!c.is_send && c.seq0 < r.seq1 && (c.ok || !c.done || c.seq1 > r.seq0)) takers++;
        }
        if (supply - takers > 0)
            HX_VIOL("closed-before-drained", "recv of th%d reported 'closed' (op %d) while at least %ld item(s) whose send had returned true before the call began or before close() was invoked were still buffered", r.th, r.op, supply - takers);
    }
    (void)ok_recv_done;
    // lost wake-up for timed receives / sends on a buffered channel (zero-cost CPU only: wake-ups cost steps, not simulated time)
    if (timing_verdicts && cap > 0 && sim::perturbed_ns() == 0) {
        const uint64_t MARGIN = 200 * 1000;   // ns
        for (auto& r : calls) {
            if (r.is_try || r.ok || !r.done || r.inf || r.en != ETIMEDOUT || r.closed_before_return) continue;
            if (r.t1_ns < r.t0_ns + MARGIN) continue;
            if (!r.is_send) {
                // supply: sends that returned true early enough; consumers: every other receive overlapping or preceding the end of r
                for (auto& x : calls) {
                    if (!(x.is_send && x.ok) || x.t1_ns + MARGIN > r.t1_ns || x.seq1 < r.seq0) continue;
                    // x's value entered the buffer while r was waiting, at least MARGIN before r gave up
                    long supply = 0, takers = 0;
                    for (auto& c : calls) {
                        if (c.is_send && c.ok && c.t1_ns <= x.t1_ns) supply++;
                        if (!c.is_send && &c != &r && c.seq0 < r.seq1 && (c.ok || !c.done || c.t1_ns > x.t1_ns)) takers++;
                    }
                    if (supply - takers > 0)
                        HX_VIOL("missed-item", "recv of th%d (op %d) timed out at %llu ns although value (%d,%d) had been buffered since %llu ns and no other receiver could have taken it",
                                r.th, r.op, (unsigned long long)r.t1_ns, x.s, x.q, (unsigned long long)x.t1_ns);
                }
            }
        }
    }
}

}  // namespace

void harness_run(uint64_t seed) {
    phx::quiet_logs();
    gen_plan();
    CH = new channel<Val>(cap);
    for (int t = 0; t < (int)scripts.size(); t++) W.add(sim::rnd(W.nvcpu), [t](int) { run_script(t); });
    W.add(sim::rnd(W.nvcpu), [](int id) { controller(id); });
    char plan[256];
    snprintf(plan, sizeof plan, "{\"vcpus\":%d,\"capacity\":%zu,\"senders\":%d,\"receivers\":%d,\"closer\":%d,\"ops\":%d}", W.nvcpu, cap, n_send, n_recv,
             (int)scripts.size() - n_send - n_recv, n_ops);
    sim::extra_json("plan", plan);
    char nb[32]; snprintf(nb, sizeof nb, "%d", n_ops); sim::extra_json("nops", nb);
    timing_verdicts = sim::cfg.cpu_cost_ns == 0 && sim::cfg.n_stalls == 0;
    std::vector<Val>* drained = new std::vector<Val>();
    W.vcpu_end = [drained](int v) {
        if (v != 0) return;
        while (W.vcpus_down < W.nvcpu - 1) thread_usleep(300);
        // drain what is left in the buffer, then destroy the channel: every value object must be gone afterwards
        Val x;
        while (CH->try_recv(x)) drained->push_back(x);
        delete CH;
    };
    sim::start();
    W.deadline_ns = sim::now_ns() + 20000000000ULL;
    W.run();
    history_oracles(*drained);
    int left = (int)drained->size();
    delete drained;
    if (val_live != 0) HX_VIOL("value-leak", "%d value object(s) neither delivered nor destroyed (constructed %d, destroyed %d)", val_live, val_ctor, val_dtor);
    sim::finish("ok", "", "channel cap=%zu senders=%d receivers=%d calls=%zu drained=%d", cap, n_send, n_recv, calls.size(), left);
}

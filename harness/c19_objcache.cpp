// C19 — ObjectCache: one live object per key, never destroyed while borrowed, exact recycle/expiry.
#include "phx.h"
#include <photon/common/expirecontainer.h>
#include <photon/common/objectcachev2.h>
#include <map>
#include <set>

using namespace photon;

void run_script(int t);

namespace {

struct Obj;
struct KeyState {
    volatile int ctor_running = 0;
    Obj* volatile live = nullptr;
    std::vector<uint64_t> fail_times;   // photon::now when an acquire whose construction failed returned (>= the cache's own record)
    volatile int fail_inflight = 0; volatile uint64_t fail_epoch = 0;
    bool update_seen = false;           // v2: update() substitutes (or, with a failing constructor, drops) whatever is cached at that moment
};
std::map<int, KeyState> keys;
uint64_t lifespan_us, timer_cycle_us;
bool limited = false;
int n_alive = 0, n_ctor = 0, n_dtor = 0;

struct Obj {
    uint64_t magic = 0x600DF00D600DF00DULL;
    int key;
    volatile int href = 0;              // harness reference count (<= the cache's own count at any time)
    volatile uint64_t last_release_now = 0;
    int expected_destroy = 0;           // recycling releases with destroy=true in progress for it (or it was handed out of the cache)
    int detaching = 0;                  // recycling releases without destroy in progress: the object may leave the cache
    Obj(int k) : key(k) { n_alive++; n_ctor++; }
    ~Obj() {
        sim::NoSched ns;
        if (magic != 0x600DF00D600DF00DULL) HX_VIOL("double-destroy", "object of key %d destroyed twice", key);
        if (href > 0) HX_VIOL("destroyed-while-borrowed", "object of key %d destroyed while %d acquirer(s) still hold it", key, href);
        if (!expected_destroy && !limited && !keys[key].update_seen && last_release_now && photon::now < last_release_now + lifespan_us)
            HX_VIOL("early-expiry", "object of key %d expired %llu us after its last release, lifespan is %llu us", key,
                    (unsigned long long)(photon::now - last_release_now), (unsigned long long)lifespan_us);
        magic = 0xDEADDEADDEADDEADULL;
        auto& ks = keys[key];
        if (ks.live == this) ks.live = nullptr;
        n_alive--; n_dtor++;
        sim::ev(0xD7012, key);
        sim::note("dtor key %d obj %p", key, (void*)this);
        sim::poison(this, sizeof(*this), "cached object after its destructor");
    }
    static void operator delete(void*) {}    // never reuse the memory: it stays poisoned
};

enum { OP_USE, OP_PAUSE };
struct Op {
    int idx, k, key = 0;
    int ctor = 0;                 // 0 success, 1 fail, 2 slow success, 3 slow fail
    uint64_t cooldown_us = 0, hold_us = 0, pause_us = 0, ctor_us = 0;
    int hold = 0, touches = 1;
    int rel = 0;                  // 0 plain, 1 recycle+destroy, 2 recycle, keep object, 3 plain via ref_release
    bool update = false;          // v2 only: substitute the cached object at once
};

phx::World W;
ObjectCache<int, Obj*>* OC;
ObjectCacheV2<int, Obj*>* OC2;     // the shared_ptr based cache with the borrow/update API (no acquire/release)
bool v2 = false;
std::vector<std::vector<Op>> scripts;
int n_ops = 0, n_keys = 1, n_workers = 0;
const uint64_t T_US[] = {1, 20, 50, 100, 200, 500, 1000, 2000, 5000};

void gen_plan() {
    W.nvcpu = 1 + sim::rnd(3);
    v2 = sim::rnd(3) == 0 && !hx::param("no_v2", 0);
    if (hx::param("v2", 0)) v2 = true;
    int nth = 2 + sim::rnd(7);
    n_keys = 1 + sim::rnd(3);
    static const uint64_t LS[] = {1000, 2000, 5000, 20000, 50000};
    lifespan_us = LS[sim::rnd(5)];
    timer_cycle_us = sim::rnd(2) ? 1000 : lifespan_us / 4 + 1;
    scripts.resize(nth);
    int failmix = sim::rnd(4);       // 0: never fails
    for (int t = 0; t < nth; t++) {
        int n = 2 + sim::rnd(9);
        for (int i = 0; i < n; i++) {
            Op o; o.idx = n_ops++;
            if (sim::rnd(5) == 0) { o.k = OP_PAUSE; o.pause_us = sim::rnd(4) == 0 ? lifespan_us + T_US[sim::rnd(6)] : (sim::rnd(3) ? T_US[sim::rnd(8)] : 0); }
            else {
                o.k = OP_USE; o.key = sim::rnd(n_keys);
                int c = sim::rnd(10);
                o.ctor = failmix == 0 ? (c < 7 ? 0 : 2) : (c < 5 ? 0 : c < 7 ? 1 : c < 9 ? 2 : 3);
                o.ctor_us = T_US[sim::rnd(7)];
                o.cooldown_us = sim::rnd(3) == 0 ? 0 : T_US[2 + sim::rnd(7)];
                o.hold = sim::rnd(3); o.hold_us = T_US[sim::rnd(7)]; o.touches = 1 + sim::rnd(3);
                int r = sim::rnd(10);
                o.rel = r < 5 ? 0 : r < 7 ? 3 : r < 9 ? 1 : 2;
                o.update = v2 && sim::rnd(8) == 0;
            }
            scripts[t].push_back(o);
        }
        W.add(sim::rnd(W.nvcpu), [t](int) { run_script(t); });
    }
    // interrupters: thread_interrupt() may hit a worker anywhere (parked as a recycler, waiting for a pending recycle,
    // inside a slow constructor, while holding); none of the guarantees may depend on not being interrupted
    n_workers = nth;
    int n_intr = sim::rnd(2) ? 1 + sim::rnd(2) : 0;
    for (int k = 0; k < n_intr; k++) {
        std::vector<std::pair<int, uint64_t>> plan;
        int n = 2 + sim::rnd(12);
        for (int i = 0; i < n; i++) plan.push_back({(int)sim::rnd(nth), T_US[sim::rnd(8)]});
        W.add(sim::rnd(W.nvcpu), [plan](int) {
            for (auto& p : plan) {
                thread_usleep(p.second);
                phx::ThreadRec& tg = W.threads[p.first];
                if (!tg.th || !tg.started || tg.done) continue;
                sim::probe("interrupt_sent");
                thread_interrupt(tg.th, EINTR);
            }
        });
    }
}

void touch(Obj* p, int t, const Op& o) {
    // a holder reads the object it borrowed: a freed object is caught by the poison map, a recycled one by the magic
    uint64_t m = p->magic;
    if (m != 0x600DF00D600DF00DULL) HX_VIOL("use-after-destroy", "th%d reads a destroyed object of key %d through its borrowed pointer (op %d)", t, o.key, o.idx);
    if (p->key != o.key) HX_VIOL("wrong-object", "th%d got an object of key %d for key %d", t, p->key, o.key);
}

}  // namespace

void run_script(int t) {
    phx::ThreadRec& me = W.threads[t];
    // v2 encodes "never constructed" as time 0: keep photon::now (which starts near 0 in the simulation, unlike a real clock) above every cooldown
    if (v2) while (photon::now < 12000) thread_usleep(1000);
    for (auto& o : scripts[t]) {
        if (hx::dropped(o.idx)) continue;
        if (o.k == OP_PAUSE) { phx::Where w(me, "pause", o.idx); if (o.pause_us) thread_usleep(o.pause_us); else thread_yield(); continue; }
        bool my_ctor_ran = false, my_ctor_failed = false;
        uint64_t call_now = photon::now, epoch0; int inflight0;
        { sim::NoSched ns; epoch0 = keys[o.key].fail_epoch; inflight0 = keys[o.key].fail_inflight; }
        auto ctor = [&]() -> Obj* {
            KeyState* ks;
            { sim::NoSched ns; ks = &keys[o.key];
              // (v2 update() substitutes the object at once and by design does not wait for a constructor in progress)
              if (ks->ctor_running && !o.update) HX_VIOL("concurrent-ctor", "two constructors running at once for key %d (th%d op %d)", o.key, t, o.idx);
              // an unreferenced object that already left the index may still await its destructor; but nobody may still hold it
              if (ks->live && ks->live->href > 0 && !(v2 && (ks->live->expected_destroy || o.update || ks->update_seen)))
                  HX_VIOL("second-object", "constructor called for key %d while %d acquirer(s) still hold the previous object %p (th%d op %d)", o.key, ks->live->href, (void*)ks->live, t, o.idx);
              if (!o.update) ks->ctor_running = 1; my_ctor_ran = true; sim::ev(0xC701, o.key, t); sim::note("th%d op%d ctor key %d kind %d (now=%llu)", t, o.idx, o.key, o.ctor, (unsigned long long)photon::now); }
            if (o.ctor >= 2) { thread_usleep(o.ctor_us); sim::probe("slow_ctor"); }
            Obj* p = nullptr;
            sim::NoSched ns;
            if (o.ctor == 0 || o.ctor == 2) {
                p = new Obj(o.key);
                if (v2 && ks->live) ks->live->expected_destroy++;       // v2: a newly installed object supersedes the cached one, which lives on only in its borrowers' hands
                ks->live = p;
            }
            else { my_ctor_failed = true; ks->fail_inflight++; ks->fail_epoch++; sim::probe("ctor_failed"); }
            if (!o.update) ks->ctor_running = 0;
            return p;
        };
        if (v2) {
            if (o.update) { sim::NoSched ns; auto& ks = keys[o.key]; ks.update_seen = true; if (ks.live) ks.live->expected_destroy++; sim::probe("v2_update"); }
            bool recycle = o.rel == 1 || o.rel == 2;
            {
                ObjectCacheV2<int, Obj*>::Borrow b;
                { phx::Where w(me, o.update ? "update" : "borrow", o.idx); b = o.update ? OC2->update(o.key, ctor) : OC2->borrow(o.key, ctor, o.cooldown_us); }
                Obj* q = b ? &*b : nullptr;
                if (!q) {
                    sim::NoSched ns;
                    sim::probe("acquire_null"); sim::probe("nontrivial");
                    KeyState& ks = keys[o.key];
                    sim::note("th%d op%d borrow key %d -> nothing (own ctor ran %d failed %d, call began at now=%llu, now=%llu)", t, o.idx, o.key, (int)my_ctor_ran, (int)my_ctor_failed, (unsigned long long)call_now, (unsigned long long)photon::now);
                    if (my_ctor_failed) { ks.fail_times.push_back((uint64_t)photon::now); ks.fail_inflight--; ks.fail_epoch++; }
                    // (update() publishes its time stamp before the object: a borrow racing with it may see "created just now, nothing there")
                    bool ok = my_ctor_failed || inflight0 > 0 || ks.fail_epoch != epoch0 || ks.update_seen;
                    if (!ok) for (uint64_t ft : ks.fail_times) if (ft + o.cooldown_us >= call_now) ok = true;
                    if (!ok) HX_VIOL("spurious-null", "borrow(key %d, cooldown %llu) of th%d returned nothing although no construction failed within the cooldown (op %d)",
                                     o.key, (unsigned long long)o.cooldown_us, t, o.idx);
                    continue;
                }
                {
                    sim::NoSched ns;
                    if (sim::active()) sim::poison_check(q, sizeof(Obj), false);
                    if (q->magic != 0x600DF00D600DF00DULL) HX_VIOL("use-after-destroy", "borrow(key %d) returned an already destroyed object to th%d (op %d)", o.key, t, o.idx);
                    q->href++;
                    if (q->href > 1) { sim::probe("shared_object"); sim::probe("nontrivial"); }
                    sim::note("th%d op%d borrowed key %d obj %p href=%d", t, o.idx, o.key, (void*)q, q->href);
                }
                for (int i = 0; i < o.touches; i++) {
                    touch(q, t, o);
                    if (o.hold == 1) thread_yield(); else if (o.hold == 2) thread_usleep(o.hold_us); else sim::yield_point();
                }
                touch(q, t, o);
                if (recycle) { b.recycle(true); sim::probe("recycle_release"); }
                { sim::NoSched ns; q->href--; q->last_release_now = photon::now; if (recycle) q->expected_destroy++;
                  sim::note("th%d op%d returns key %d obj %p recycle=%d", t, o.idx, o.key, (void*)q, (int)recycle); }
                phx::Where w(me, "return-borrow", o.idx);
            }   // ~Borrow
            continue;
        }
        typename ObjectCache<int, Obj*>::ItemPtr item = nullptr;
        Obj* p;
        {
            phx::Where w(me, "acquire", o.idx);
            if (o.rel == 3) { item = OC->ref_acquire(o.key, ctor, o.cooldown_us); p = item ? item->get_ptr() : nullptr; }
            else p = OC->acquire(o.key, ctor, o.cooldown_us);
        }
        if (!p) {
            sim::NoSched ns;
            sim::probe("acquire_null"); sim::probe("nontrivial");
            // a null result must come from a failed construction: this call's own, or one within the cooldown window
            KeyState& ks = keys[o.key];
            if (my_ctor_failed) { ks.fail_times.push_back((uint64_t)photon::now); ks.fail_inflight--; ks.fail_epoch++; }
            bool ok = my_ctor_failed || inflight0 > 0 || ks.fail_epoch != epoch0;
            if (!ok) for (uint64_t ft : keys[o.key].fail_times) if (ft + o.cooldown_us >= call_now) ok = true;
            if (!ok) HX_VIOL("spurious-null", "acquire(key %d, cooldown %llu) of th%d returned null although no construction failed within the cooldown (op %d)",
                             o.key, (unsigned long long)o.cooldown_us, t, o.idx);
            sim::note("th%d op%d acquire key %d -> null", t, o.idx, o.key);
            continue;
        }
        {
            sim::NoSched ns;
            if (sim::active()) sim::poison_check(p, sizeof(Obj), false);
            if (p->magic != 0x600DF00D600DF00DULL) HX_VIOL("use-after-destroy", "acquire(key %d) returned an already destroyed object to th%d (op %d)", o.key, t, o.idx);
            p->href++;
            if (p->href > 1) { sim::probe("shared_object"); sim::probe("nontrivial"); }
            sim::ev(0xAC19, o.key, t);
            sim::note("th%d op%d acquired key %d obj %p href=%d", t, o.idx, o.key, (void*)p, p->href);
        }
        for (int i = 0; i < o.touches; i++) {
            touch(p, t, o);
            if (o.hold == 1) thread_yield(); else if (o.hold == 2) thread_usleep(o.hold_us); else sim::yield_point();
        }
        touch(p, t, o);
        bool recycle = o.rel == 1 || o.rel == 2, destroy = o.rel != 2;
        { sim::NoSched ns; p->href--; p->last_release_now = photon::now; if (recycle && destroy) p->expected_destroy++; if (recycle && !destroy) p->detaching++;
          sim::ev(0xAC1A, o.key, t); sim::note("th%d op%d releasing key %d obj %p recycle=%d destroy=%d", t, o.idx, o.key, (void*)p, recycle, destroy); }
        Obj* back;
        {
            phx::Where w(me, recycle ? "release(recycle)" : "release", o.idx);
            if (item) back = OC->ref_release(item, recycle, destroy);
            else back = OC->release(o.key, recycle, destroy);
        }
        if (recycle) {
            sim::NoSched ns;
            sim::probe("recycle_release"); sim::probe("nontrivial");
            // The cache accepts one recycler per object; a second concurrent recycling release is served as a plain one.
            // The accepted recycler returns only after every other holder has released.
            bool alive = p->magic == 0x600DF00D600DF00DULL;
            if (destroy) {
                if (alive) { p->expected_destroy--; sim::probe("recycle_downgraded"); }      // accepted => destroyed (its destructor checked the holders)
            } else if (back) {
                if (back != p) HX_VIOL("wrong-object", "recycling release returned a different object");
                if (back->href > 0)
                    HX_VIOL("recycle-early", "recycling release of key %d by th%d returned the object while %d other holder(s) still have it (op %d)", o.key, t, back->href, o.idx);
                back->expected_destroy++;
                sim::nosched_end(); delete back; sim::nosched_begin();
            } else { p->detaching--; sim::probe("recycle_downgraded"); }
        }
    }
}

void harness_run(uint64_t seed) {
    phx::quiet_logs();
    gen_plan();
    char plan[256];
    snprintf(plan, sizeof plan, "{\"cache\":\"%s\",\"vcpus\":%d,\"threads\":%zu,\"keys\":%d,\"lifespan_us\":%llu,\"timer_cycle_us\":%llu,\"ops\":%d}", v2 ? "ObjectCacheV2" : "ObjectCache", W.nvcpu, scripts.size(), n_keys,
             (unsigned long long)lifespan_us, (unsigned long long)timer_cycle_us, n_ops);
    sim::extra_json("plan", plan);
    char nb[32]; snprintf(nb, sizeof nb, "%d", n_ops); sim::extra_json("nops", nb);
    sim::set_poison_property("use-after-destroy");
    for (int k = 0; k < n_keys; k++) keys[k];
    W.vcpu_pre = [](int v) { if (v != 0) return; if (v2) OC2 = new ObjectCacheV2<int, Obj*>(lifespan_us); else OC = new ObjectCache<int, Obj*>(lifespan_us, timer_cycle_us); };
    W.vcpu_end = [](int v) {
        if (v != 0) return;
        while (W.vcpus_down < W.nvcpu - 1) thread_usleep(300);
        // let the expiry timer reap what is unreferenced, then drop the cache
        thread_usleep(lifespan_us + 2 * (v2 ? 1000000 : timer_cycle_us) + 2000);      // (the v2 reclaimer wakes up once a second at least)
        if (n_alive > 0) sim::probe("objects_left_for_clear");
        else sim::probe("all_expired_by_timer");
        for (auto& kv : keys) if (kv.second.live) kv.second.live->expected_destroy++;
        if (v2) delete OC2; else delete OC;
        if (n_alive != 0) HX_VIOL("leak", "%d object(s) still alive after the cache was destroyed", n_alive);
    };
    sim::start();
    W.deadline_ns = sim::now_ns() + 20000000000ULL;
    W.run();
    sim::finish("ok", "", "objcache vcpus=%d threads=%zu ctor=%d dtor=%d", W.nvcpu, scripts.size(), n_ctor, n_dtor);
}

// C19 — ObjectCache: one live object per key, never destroyed while borrowed, exact recycle/expiry.
#include "phx.h"
#include <photon/common/expirecontainer.h>
#include <map>
#include <set>

using namespace photon;

void run_script(int t);

namespace {

struct Obj;
struct KeyState {
    volatile int ctor_running = 0;
    Obj* volatile live = nullptr;
    std::vector<uint64_t> fail_times;   // photon::now when an acquire whose construction failed returned (>= the cache's own record)
    volatile int fail_inflight = 0; volatile uint64_t fail_epoch = 0;
};
std::map<int, KeyState> keys;
uint64_t lifespan_us, timer_cycle_us;
bool limited = false;
int n_alive = 0, n_ctor = 0, n_dtor = 0;

struct Obj {
    uint64_t magic = 0x600DF00D600DF00DULL;
    int key;
    volatile int href = 0;              // harness reference count (<= the cache's own count at any time)
    volatile uint64_t last_release_now = 0;
    int expected_destroy = 0;           // recycling releases with destroy=true in progress for it (or it was handed out of the cache)
    int detaching = 0;                  // recycling releases without destroy in progress: the object may leave the cache
    Obj(int k) : key(k) { n_alive++; n_ctor++; }
    ~Obj() {
        sim::NoSched ns;
        if (magic != 0x600DF00D600DF00DULL) HX_VIOL("double-destroy", "object of key %d destroyed twice", key);
        if (href > 0) HX_VIOL("destroyed-while-borrowed", "object of key %d destroyed while %d acquirer(s) still hold it", key, href);
        if (!expected_destroy && !limited && last_release_now && photon::now < last_release_now + lifespan_us)
            HX_VIOL("early-expiry", "object of key %d expired %llu us after its last release, lifespan is %llu us", key,
                    (unsigned long long)(photon::now - last_release_now), (unsigned long long)lifespan_us);
        magic = 0xDEADDEADDEADDEADULL;
        auto& ks = keys[key];
        if (ks.live == this) ks.live = nullptr;
        n_alive--; n_dtor++;
        sim::ev(0xD7012, key);
        sim::note("dtor key %d obj %p", key, (void*)this);
        sim::poison(this, sizeof(*this), "cached object after its destructor");
    }
    static void operator delete(void*) {}    // never reuse the memory: it stays poisoned
};

enum { OP_USE, OP_PAUSE };
struct Op {
    int idx, k, key = 0;
    int ctor = 0;                 // 0 success, 1 fail, 2 slow success, 3 slow fail
    uint64_t cooldown_us = 0, hold_us = 0, pause_us = 0, ctor_us = 0;
    int hold = 0, touches = 1;
    int rel = 0;                  // 0 plain, 1 recycle+destroy, 2 recycle, keep object, 3 plain via ref_release
};

phx::World W;
ObjectCache<int, Obj*>* OC;
std::vector<std::vector<Op>> scripts;
int n_ops = 0, n_keys = 1, n_workers = 0;
const uint64_t T_US[] = {1, 20, 50, 100, 200, 500, 1000, 2000, 5000};

void gen_plan() {
    W.nvcpu = 1 + sim::rnd(3);
    int nth = 2 + sim::rnd(7);
    n_keys = 1 + sim::rnd(3);
    static const uint64_t LS[] = {1000, 2000, 5000, 20000, 50000};
    lifespan_us = LS[sim::rnd(5)];
    timer_cycle_us = sim::rnd(2) ? 1000 : lifespan_us / 4 + 1;
    scripts.resize(nth);
    int failmix = sim::rnd(4);       // 0: never fails
    for (int t = 0; t < nth; t++) {
        int n = 2 + sim::rnd(9);
        for (int i = 0; i < n; i++) {
            Op o; o.idx = n_ops++;
            if (sim::rnd(5) == 0) { o.k = OP_PAUSE; o.pause_us = sim::rnd(4) == 0 ? lifespan_us + T_US[sim::rnd(6)] : (sim::rnd(3) ? T_US[sim::rnd(8)] : 0); }
            else {
                o.k = OP_USE; o.key = sim::rnd(n_keys);
                int c = sim::rnd(10);
                o.ctor = failmix == 0 ? (c < 7 ? 0 : 2) : (c < 5 ? 0 : c < 7 ? 1 : c < 9 ? 2 : 3);
                o.ctor_us = T_US[sim::rnd(7)];
                o.cooldown_us = sim::rnd(3) == 0 ? 0 : T_US[2 + sim::rnd(7)];
                o.hold = sim::rnd(3); o.hold_us = T_US[sim::rnd(7)]; o.touches = 1 + sim::rnd(3);
                int r = sim::rnd(10);
                o.rel = r < 5 ? 0 : r < 7 ? 3 : r < 9 ? 1 : 2;
            }
            scripts[t].push_back(o);
        }
        W.add(sim::rnd(W.nvcpu), [t](int) { run_script(t); });
    }
    // interrupters: thread_interrupt() may hit a worker anywhere (parked as a recycler, waiting for a pending recycle,
    // inside a slow constructor, while holding); none of the guarantees may depend on not being interrupted
    n_workers = nth;
    int n_intr = sim::rnd(2) ? 1 + sim::rnd(2) : 0;
    for (int k = 0; k < n_intr; k++) {
        std::vector<std::pair<int, uint64_t>> plan;
        int n = 2 + sim::rnd(12);
        for (int i = 0; i < n; i++) plan.push_back({(int)sim::rnd(nth), T_US[sim::rnd(8)]});
        W.add(sim::rnd(W.nvcpu), [plan](int) {
            for (auto& p : plan) {
                thread_usleep(p.second);
                phx::ThreadRec& tg = W.threads[p.first];
                if (!tg.th || !tg.started || tg.done) continue;
                sim::probe("interrupt_sent");
                thread_interrupt(tg.th, EINTR);
            }
        });
    }
}

void touch(Obj* p, int t, const Op& o) {
    // a holder reads the object it borrowed: a freed object is caught by the poison map, a recycled one by the magic
    uint64_t m = p->magic;
    if (m != 0x600DF00D600DF00DULL) HX_VIOL("use-after-destroy", "th%d reads a destroyed object of key %d through its borrowed pointer (op %d)", t, o.key, o.idx);
    if (p->key != o.key) HX_VIOL("wrong-object", "th%d got an object of key %d for key %d", t, p->key, o.key);
}

}  // namespace

void run_script(int t) {
    phx::ThreadRec& me = W.threads[t];
    for (auto& o : scripts[t]) {
        if (hx::dropped(o.idx)) continue;
        if (o.k == OP_PAUSE) { phx::Where w(me, "pause", o.idx); if (o.pause_us) thread_usleep(o.pause_us); else thread_yield(); continue; }
        bool my_ctor_ran = false, my_ctor_failed = false;
        uint64_t call_now = photon::now, epoch0; int inflight0;
        { sim::NoSched ns; epoch0 = keys[o.key].fail_epoch; inflight0 = keys[o.key].fail_inflight; }
        auto ctor = [&]() -> Obj* {
            KeyState* ks;
            { sim::NoSched ns; ks = &keys[o.key];
              if (ks->ctor_running) HX_VIOL("concurrent-ctor", "two constructors running at once for key %d (th%d op %d)", o.key, t, o.idx);
              // an unreferenced object that already left the index may still await its destructor; but nobody may still hold it
              if (ks->live && ks->live->href > 0)
                  HX_VIOL("second-object", "constructor called for key %d while %d acquirer(s) still hold the previous object %p (th%d op %d)", o.key, ks->live->href, (void*)ks->live, t, o.idx);
              ks->ctor_running = 1; my_ctor_ran = true; sim::ev(0xC701, o.key, t); sim::note("th%d op%d ctor key %d kind %d", t, o.idx, o.key, o.ctor); }
            if (o.ctor >= 2) { thread_usleep(o.ctor_us); sim::probe("slow_ctor"); }
            Obj* p = nullptr;
            sim::NoSched ns;
            if (o.ctor == 0 || o.ctor == 2) { p = new Obj(o.key); ks->live = p; }
            else { my_ctor_failed = true; ks->fail_inflight++; ks->fail_epoch++; sim::probe("ctor_failed"); }
            ks->ctor_running = 0;
            return p;
        };
        typename ObjectCache<int, Obj*>::ItemPtr item = nullptr;
        Obj* p;
        {
            phx::Where w(me, "acquire", o.idx);
            if (o.rel == 3) { item = OC->ref_acquire(o.key, ctor, o.cooldown_us); p = item ? item->get_ptr() : nullptr; }
            else p = OC->acquire(o.key, ctor, o.cooldown_us);
        }
        if (!p) {
            sim::NoSched ns;
            sim::probe("acquire_null"); sim::probe("nontrivial");
            // a null result must come from a failed construction: this call's own, or one within the cooldown window
            KeyState& ks = keys[o.key];
            if (my_ctor_failed) { ks.fail_times.push_back((uint64_t)photon::now); ks.fail_inflight--; ks.fail_epoch++; }
            bool ok = my_ctor_failed || inflight0 > 0 || ks.fail_epoch != epoch0;
            if (!ok) for (uint64_t ft : keys[o.key].fail_times) if (ft + o.cooldown_us >= call_now) ok = true;
            if (!ok) HX_VIOL("spurious-null", "acquire(key %d, cooldown %llu) of th%d returned null although no construction failed within the cooldown (op %d)",
                             o.key, (unsigned long long)o.cooldown_us, t, o.idx);
            sim::note("th%d op%d acquire key %d -> null", t, o.idx, o.key);
            continue;
        }
        {
            sim::NoSched ns;
            if (sim::active()) sim::poison_check(p, sizeof(Obj), false);
            if (p->magic != 0x600DF00D600DF00DULL) HX_VIOL("use-after-destroy", "acquire(key %d) returned an already destroyed object to th%d (op %d)", o.key, t, o.idx);
            p->href++;
            if (p->href > 1) { sim::probe("shared_object"); sim::probe("nontrivial"); }
            sim::ev(0xAC19, o.key, t);
            sim::note("th%d op%d acquired key %d obj %p href=%d", t, o.idx, o.key, (void*)p, p->href);
        }
        for (int i = 0; i < o.touches; i++) {
            touch(p, t, o);
            if (o.hold == 1) thread_yield(); else if (o.hold == 2) thread_usleep(o.hold_us); else sim::yield_point();
        }
        touch(p, t, o);
        bool recycle = o.rel == 1 || o.rel == 2, destroy = o.rel != 2;
        { sim::NoSched ns; p->href--; p->last_release_now = photon::now; if (recycle && destroy) p->expected_destroy++; if (recycle && !destroy) p->detaching++;
          sim::ev(0xAC1A, o.key, t); sim::note("th%d op%d releasing key %d obj %p recycle=%d destroy=%d", t, o.idx, o.key, (void*)p, recycle, destroy); }
        Obj* back;
        {
            phx::Where w(me, recycle ? "release(recycle)" : "release", o.idx);
            if (item) back = OC->ref_release(item, recycle, destroy);
            else back = OC->release(o.key, recycle, destroy);
        }
        if (recycle) {
            sim::NoSched ns;
            sim::probe("recycle_release"); sim::probe("nontrivial");
            // The cache accepts one recycler per object; a second concurrent recycling release is served as a plain one.
            // The accepted recycler returns only after every other holder has released.
            bool alive = p->magic == 0x600DF00D600DF00DULL;
            if (destroy) {
                if (alive) { p->expected_destroy--; sim::probe("recycle_downgraded"); }      // accepted => destroyed (its destructor checked the holders)
            } else if (back) {
                if (back != p) HX_VIOL("wrong-object", "recycling release returned a different object");
                if (back->href > 0)
                    HX_VIOL("recycle-early", "recycling release of key %d by th%d returned the object while %d other holder(s) still have it (op %d)", o.key, t, back->href, o.idx);
                back->expected_destroy++;
                sim::nosched_end(); delete back; sim::nosched_begin();
            } else { p->detaching--; sim::probe("recycle_downgraded"); }
        }
    }
}

void harness_run(uint64_t seed) {
    phx::quiet_logs();
    gen_plan();
    char plan[256];
    snprintf(plan, sizeof plan, "{\"vcpus\":%d,\"threads\":%zu,\"keys\":%d,\"lifespan_us\":%llu,\"timer_cycle_us\":%llu,\"ops\":%d}", W.nvcpu, scripts.size(), n_keys,
             (unsigned long long)lifespan_us, (unsigned long long)timer_cycle_us, n_ops);
    sim::extra_json("plan", plan);
    char nb[32]; snprintf(nb, sizeof nb, "%d", n_ops); sim::extra_json("nops", nb);
    sim::set_poison_property("use-after-destroy");
    for (int k = 0; k < n_keys; k++) keys[k];
    W.vcpu_pre = [](int v) { if (v == 0) OC = new ObjectCache<int, Obj*>(lifespan_us, timer_cycle_us); };
    W.vcpu_end = [](int v) {
        if (v != 0) return;
        while (W.vcpus_down < W.nvcpu - 1) thread_usleep(300);
        // let the expiry timer reap what is unreferenced, then drop the cache
        thread_usleep(lifespan_us + 2 * timer_cycle_us + 2000);
        if (n_alive > 0) sim::probe("objects_left_for_clear");
        else sim::probe("all_expired_by_timer");
        for (auto& kv : keys) if (kv.second.live) kv.second.live->expected_destroy++;
        delete OC;
        if (n_alive != 0) HX_VIOL("leak", "%d object(s) still alive after the cache was destroyed", n_alive);
    };
    sim::start();
    W.deadline_ns = sim::now_ns() + 20000000000ULL;
    W.run();
    sim::finish("ok", "", "objcache vcpus=%d threads=%zu ctor=%d dtor=%d", W.nvcpu, scripts.size(), n_ctor, n_dtor);
}

// C01 — photon mutex / seq_mutex / recursive_mutex exclusion and lock() result,
// plus spinlock / ticket_spinlock / qspinlock exclusion between OS tasks.
#include "phx.h"
#include <atomic>

using namespace photon;

void run_script(int t);

namespace {

struct MX : photon::mutex {
    MX(uint16_t r, bool c) : mutex(r, c) {}
    thread* own() { return owner.load(); }
};
struct SX : photon::seq_mutex {
    using photon::mutex::lock; using photon::mutex::try_lock; using photon::mutex::unlock; using photon::mutex::locked;
    thread* own() { return owner.load(); }
};
struct RX : photon::recursive_mutex {
    RX(uint16_t r, bool c) : recursive_mutex(r, c) {}
    thread* own() { return owner.load(); }
    using photon::mutex::locked;
};

struct LockObj {
    int kind = 0;  // 0 mutex, 1 seq, 2 recursive
    MX* m = nullptr; SX* s = nullptr; RX* r = nullptr;
    volatile int inside = 0;
    volatile int holder = -1;
    int lock(Timeout t) { return kind == 0 ? m->lock(t) : kind == 1 ? s->lock(t) : r->lock(t); }
    int try_lock() { return kind == 0 ? m->try_lock() : kind == 1 ? s->try_lock() : r->try_lock(); }
    void unlock() { kind == 0 ? m->unlock() : kind == 1 ? s->unlock() : r->unlock(); }
    thread* own() { return kind == 0 ? m->own() : kind == 1 ? s->own() : r->own(); }
    bool locked() { return kind == 0 ? m->locked() : kind == 1 ? s->locked() : r->locked(); }
};

enum { OP_ACQ, OP_PAUSE, OP_INTR };
struct Op {
    int idx, k;
    int lock = 0, mode = 0, hold = 0, depth = 1, target = 0, eno = 0;
    uint64_t timeout_us = 0, hold_us = 0, pause_us = 0;
};

std::vector<LockObj> locks;
std::vector<std::vector<Op>> scripts;
std::vector<int> intr_sent;        // per target thread
phx::World W;
int n_ops = 0;

const uint64_t T_US[] = {1, 20, 50, 100, 150, 200, 400, 1000, 3000};

void gen_plan() {
    W.nvcpu = 1 + sim::rnd(3);
    int nth = 2 + sim::rnd(5);
    int nlocks = 1 + sim::rnd(2);
    locks.resize(nlocks);
    static const uint16_t RET[] = {0, 1, 3, 100};
    for (auto& l : locks) {
        l.kind = sim::rnd(4) == 0 ? 1 : (sim::rnd(4) == 0 ? 2 : 0);
        uint16_t re = RET[sim::rnd(4)]; bool ct = sim::rnd(3) == 0;
        if (l.kind == 0) l.m = new MX(re, ct);
        else if (l.kind == 1) l.s = new SX();
        else l.r = new RX(re, ct);
    }
    bool with_intr = sim::rnd(2) == 0;
    int n_intr = with_intr ? 1 + sim::rnd(2) : 0;
    scripts.resize(nth + n_intr);
    intr_sent.assign(nth + n_intr, 0);
    for (int t = 0; t < nth; t++) {
        int n = 2 + sim::rnd(10);
        for (int i = 0; i < n; i++) {
            Op o; o.idx = n_ops++;
            if (sim::rnd(5) == 0) { o.k = OP_PAUSE; o.pause_us = sim::rnd(3) == 0 ? 0 : T_US[sim::rnd(7)]; }
            else {
                o.k = OP_ACQ; o.lock = sim::rnd(nlocks);
                int m = sim::rnd(10);
                o.mode = m < 4 ? 0 : (m < 6 ? 1 : 2);           // 0: lock(), 1: try_lock, 2: timed lock
                o.timeout_us = sim::rnd(8) == 0 ? 0 : T_US[sim::rnd(9)];
                o.hold = sim::rnd(3); o.hold_us = T_US[1 + sim::rnd(6)];
                o.depth = locks[o.lock].kind == 2 ? 1 + sim::rnd(3) : 1;
            }
            scripts[t].push_back(o);
        }
    }
    for (int t = nth; t < nth + n_intr; t++) {
        int n = 2 + sim::rnd(10);
        static const int EN[] = {EINTR, ECANCELED, EAGAIN, EIO};
        for (int i = 0; i < n; i++) {
            Op o; o.idx = n_ops++; o.k = OP_INTR; o.target = sim::rnd(nth); o.eno = EN[sim::rnd(4)];
            o.pause_us = T_US[sim::rnd(8)];
            scripts[t].push_back(o);
        }
    }
    for (int t = 0; t < (int)scripts.size(); t++) {
        int v = sim::rnd(W.nvcpu);
        W.add(v, [t](int id) { run_script(t); });
    }
    W.vcpu_flags.assign(W.nvcpu, 0);
}

void enter_cs(LockObj& L, int tid, int depth_now, const Op& o) {
    sim::NoSched ns;
    if (depth_now == 1) {
        int v = ++L.inside;
        if (v != 1) HX_VIOL("exclusion", "two threads inside the critical section of lock %d (kind %d): th%d entered while th%d holds (op %d)",
                            (int)(&L - &locks[0]), L.kind, tid, L.holder, o.idx);
        L.holder = tid;
    }
    if (L.own() != CURRENT)
        HX_VIOL("ownership", "lock()/try_lock() returned 0 to th%d but it is not the owner (op %d, kind %d)", tid, o.idx, L.kind);
    sim::ev(0xAC01, tid, o.idx);
}
void check_cs(LockObj& L, int tid, const Op& o) {
    sim::NoSched ns;
    if (L.inside != 1 || L.holder != tid)
        HX_VIOL("exclusion", "critical section of lock %d violated while th%d holds it: inside=%d holder=th%d (op %d)",
                (int)(&L - &locks[0]), tid, L.inside, L.holder, o.idx);
}
void leave_cs(LockObj& L, int tid, int depth_now, const Op& o) {
    sim::NoSched ns;
    if (depth_now == 1) {
        if (L.inside != 1 || L.holder != tid)
            HX_VIOL("exclusion", "critical section of lock %d violated at exit of th%d: inside=%d holder=th%d (op %d)",
                    (int)(&L - &locks[0]), tid, L.inside, L.holder, o.idx);
        L.inside--; L.holder = -1;
    }
    sim::ev(0xAC02, tid, o.idx);
}

}  // namespace

void run_script(int t) {
    phx::ThreadRec& me = W.threads[t];
    for (auto& o : scripts[t]) {
        if (hx::dropped(o.idx)) continue;
        if (o.k == OP_PAUSE) {
            phx::Where w(me, "pause", o.idx);
            if (o.pause_us) thread_usleep(o.pause_us); else thread_yield();
        } else if (o.k == OP_INTR) {
            phx::Where w(me, "intr", o.idx);
            thread_usleep(o.pause_us);
            phx::ThreadRec& tg = W.threads[o.target];
            if (!tg.th || !tg.started) continue;
            { sim::NoSched ns; intr_sent[o.target]++; sim::ev(0x1277, o.target, o.eno); }
            thread_interrupt(tg.th, o.eno);
        } else {
            LockObj& L = locks[o.lock];
            int got = 0;
            for (int d = 1; d <= o.depth; d++) {
                int r; Timeout tmo;   // never
                uint64_t before = photon::now;
                {
                    phx::Where w(me, o.mode == 1 ? "try_lock" : (o.mode == 2 ? "lock(timeout)" : "lock()"), o.idx);
                    if (o.mode == 1) r = L.try_lock();
                    else { if (o.mode == 2) tmo = Timeout(o.timeout_us); r = L.lock(tmo); }
                }
                int en = errno;
                if (r == 0) { got = d; enter_cs(L, t, d, o); if (d > 1) sim::probe("recursive_relock"); }
                else {
                    sim::NoSched ns;
                    if (d > 1) HX_VIOL("result", "recursive re-lock by the owner th%d failed (op %d, errno %d)", t, o.idx, en);
                    if (L.own() == CURRENT)
                        HX_VIOL("ownership", "lock() failed (errno %d) for th%d but it IS recorded as the owner (op %d)", en, t, o.idx);
                    if (o.mode != 1) {
                        bool by_timeout = o.mode == 2 && photon::now >= tmo.expiration();
                        if (by_timeout) sim::probe("lock_timed_out");
                        else if (intr_sent[t] > 0) sim::probe("lock_interrupted");
                        else HX_VIOL("result", "lock(%s) of th%d failed with errno %d before its deadline and without any interrupt (op %d, now=%llu exp=%llu)",
                                     o.mode == 2 ? "timeout" : "inf", t, en, o.idx, (unsigned long long)photon::now, (unsigned long long)tmo.expiration());
                        sim::probe("nontrivial");
                    }
                    sim::ev(0xFA11, t, o.idx);
                    break;
                }
                (void)before;
            }
            if (!got) continue;
            if (o.hold == 1) { thread_yield(); sim::probe("nontrivial"); }
            else if (o.hold == 2) { thread_usleep(o.hold_us); sim::probe("nontrivial"); }
            sim::yield_point();
            check_cs(L, t, o);
            for (int d = got; d >= 1; d--) {
                leave_cs(L, t, d, o);
                phx::Where w(me, "unlock", o.idx);
                L.unlock();
            }
        }
    }
}

// ---- spinlock family between plain OS tasks ---------------------------------------
namespace {
struct SpinWorld {
    int kind;  // 0 spinlock 1 ticket 2 qspinlock
    photon::spinlock sl; photon::ticket_spinlock tl; photon::qspinlock ql;
    volatile int inside = 0; volatile int holder = -1;
    volatile int done = 0;
    void lock() { kind == 0 ? sl.lock() : kind == 1 ? tl.lock() : ql.lock(); }
    int try_lock() { return kind == 0 ? sl.try_lock() : kind == 2 ? ql.try_lock() : (tl.lock(), 0); }
    void unlock() { kind == 0 ? sl.unlock() : kind == 1 ? tl.unlock() : ql.unlock(); }
};
SpinWorld SW;

void run_spin() {
    SW.kind = sim::rnd(3);
    int nt = 2 + sim::rnd(3);
    struct SOp { int idx; bool tr; int hold; };
    std::vector<std::vector<SOp>> sc(nt);
    for (auto& s : sc) { int n = 1 + sim::rnd(8); for (int i = 0; i < n; i++) s.push_back({n_ops++, sim::rnd(3) == 0, (int)sim::rnd(4)}); }
    char plan[128]; snprintf(plan, sizeof plan, "{\"sub\":\"spin\",\"kind\":%d,\"tasks\":%d,\"ops\":%d}", SW.kind, nt, n_ops);
    sim::extra_json("plan", plan);
    char nb[32]; snprintf(nb, sizeof nb, "%d", n_ops); sim::extra_json("nops", nb);
    sim::start();
    std::vector<std::thread> th;
    for (int t = 0; t < nt; t++) th.emplace_back([t, &sc] {
        for (auto& o : sc[t]) {
            if (hx::dropped(o.idx)) continue;
            int r = 0;
            if (o.tr) r = SW.try_lock(); else SW.lock();
            if (r != 0) { sim::probe("trylock_busy"); sim::probe("nontrivial"); continue; }
            { sim::NoSched ns; int v = ++SW.inside; if (v != 1) HX_VIOL("exclusion", "spin kind %d: task %d entered while task %d inside (op %d)", SW.kind, t, SW.holder, o.idx); SW.holder = t; }
            for (int h = 0; h < o.hold; h++) sim::yield_point();
            { sim::NoSched ns; if (SW.inside != 1 || SW.holder != t) HX_VIOL("exclusion", "spin kind %d: exclusion broken while task %d holds (inside=%d holder=%d, op %d)", SW.kind, t, SW.inside, SW.holder, o.idx); SW.inside--; SW.holder = -1; }
            SW.unlock();
        }
        sim::NoSched ns; SW.done++;
    });
    uint64_t deadline = sim::now_ns() + 3000000000ULL;
    while (SW.done < nt) {
        if (sim::now_ns() > deadline) HX_VIOL("stuck", "spin kind %d: %d of %d tasks never finished (lock left stuck or waiter never admitted)", SW.kind, nt - SW.done, nt);
        sim::sleep_ns(2000000);
    }
    for (auto& t : th) t.join();
    if (sim::switches() > 4) sim::probe("nontrivial");
    sim::finish("ok", "", "spin kind %d tasks %d", SW.kind, nt);
}
}  // namespace

void harness_run(uint64_t seed) {
    phx::quiet_logs();
    if (sim::rnd(5) == 0 && !hx::param("no_spin", 0)) { run_spin(); return; }
    gen_plan();
    char plan[256];
    snprintf(plan, sizeof plan, "{\"sub\":\"mutex\",\"vcpus\":%d,\"threads\":%zu,\"locks\":%zu,\"kinds\":[%d,%d],\"ops\":%d}",
             W.nvcpu, scripts.size(), locks.size(), locks[0].kind, locks.size() > 1 ? locks[1].kind : -1, n_ops);
    sim::extra_json("plan", plan);
    char nb[32]; snprintf(nb, sizeof nb, "%d", n_ops); sim::extra_json("nops", nb);
    sim::start();
    W.deadline_ns = sim::now_ns() + 5000000000ULL;   // 5 s of simulated time; scripts need < 100 ms
    W.run();
    for (auto& L : locks) {
        if (L.locked()) HX_VIOL("stuck", "mutex still locked after every thread finished");
        if (L.inside != 0) HX_VIOL("exclusion", "occupancy counter not zero at the end");
    }
    sim::finish("ok", "", "mutex vcpus=%d threads=%zu", W.nvcpu, scripts.size());
}

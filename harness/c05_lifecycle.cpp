// C05 — thread lifecycle: every created thread runs once, on one vCPU at a time; join is exact;
// stacks are released exactly once and not early; vCPU thread counts return to their initial value.
#include "phx.h"
#include <photon/thread/thread11.h>
#include <photon/thread/thread-pool.h>
#include <photon/thread/stack-allocator.h>
#include <map>
#include <malloc.h>

using namespace photon;

void run_parent(int t);

namespace {

enum CK { C_YIELD, C_SLEEP, C_MIGRATE_SELF, C_SPAWN, C_EXIT };
struct CStep { int k; uint64_t us = 0; int vcpu = 0; int child = -1; };
struct Child {
    int id = 0, parent = -1;          // parent: script thread index or -(parent child id)-2
    int how = 0;                      // 0 thread_create, 1 thread_create11, 2 pool (non joinable), 3 pool joinable
    bool joinable = false, stealable = false;
    std::vector<CStep> steps;
    // run-time
    thread* th = nullptr; TPControl* ctl = nullptr; join_handle* jh = nullptr;
    volatile int block_seq = 0;
    volatile int runs = 0, active = 0, done = 0, created = 0, join_started = 0, joined = 0, create_failed = 0;
    void* stack_ptr = nullptr; size_t stack_size = 0; volatile int stack_freed = 0;
    int home_vcpu = 0;
    volatile int pins = 0;            // other families acting on this thread right now: its own parent does not join (= release) it meanwhile
};
std::vector<Child> kids;

enum PK { P_CREATE, P_JOIN, P_INTR, P_MIGRATE, P_PAUSE, P_MIGRATE_THEN_INTR };
struct POp { int idx, k, child = -1, vcpu = 0, eno = EINTR; uint64_t us = 0; int foreign = -1; int a_id = -1, b_id = -1; };   // foreign: pick the target among all children (selector), not only the own ones
std::vector<std::vector<POp>> scripts;
phx::World W;
int n_ops = 0;
std::vector<ThreadPoolBase*> pools;
bool alloc_fail = false;
const uint64_t T_US[] = {1, 20, 50, 100, 200, 500, 1000};

// ---- recording / poisoning stack allocator --------------------------------------------------
struct Alloc { char* p; size_t n; int freed; };
std::vector<Alloc> allocs;
int alloc_calls = 0, fail_at = -1;
__thread int fail_armed = 0;       // only allocations made by plain thread_create() of a child (on this OS thread) may fail

Child* child_of_stack(void* p, size_t n) {
    for (auto& c : kids) if (c.th && (char*)c.th >= (char*)p && (char*)c.th < (char*)p + n) return &c;
    return nullptr;
}
void* stack_alloc(void*, size_t size) {
    sim::NoSched ns;
    if (fail_armed && ++alloc_calls == fail_at) { sim::fault_fired("stack_alloc_failed"); return nullptr; }
    void* p = nullptr;
    if (posix_memalign(&p, 4096, size)) return nullptr;
    sim::unpoison(p, size);
    allocs.push_back({(char*)p, size, 0});
    return p;
}
void stack_dealloc(void*, void* p, size_t size) {
    sim::NoSched ns;
    for (auto& a : allocs) {
        if (a.p != p) continue;
        if (a.freed) HX_VIOL("stack-double-free", "stack %p released twice", p);
        if (a.n != size) HX_VIOL("stack-free-size", "stack %p released with size %zu, allocated %zu", p, size, a.n);
        a.freed = 1;
        if (Child* c = child_of_stack(p, size)) {
            if (!c->done) HX_VIOL("stack-early-free", "stack of child %d released before its entry function returned", c->id);
            if (c->joinable && c->how < 2 && !c->join_started)
                HX_VIOL("stack-early-free", "stack of joinable child %d released before thread_join() was called", c->id);
            c->stack_freed++;
        }
        // keep the memory, poisoned: any later access through a stale pointer is reported
        sim::poison(p, size, "released photon thread stack");
        return;
    }
    HX_VIOL("stack-bad-free", "dealloc of %p which was never allocated", p);
}

void* child_entry(void* arg);

void child_body(Child& c) {
    { sim::NoSched ns;
      if (!c.th) c.th = photon::CURRENT;      // a stolen thread may get here before its creator has stored the handle
      if (c.runs++) HX_VIOL("ran-twice", "entry function of child %d started %d times", c.id, c.runs);
      if (++c.active != 1) HX_VIOL("two-vcpus", "child %d is executing on two vCPUs at once", c.id);
      sim::ev(0xC81D, c.id, 1); sim::note("child %d starts on vcpu-task %d", c.id, sim::task_id()); }
    auto block = [&](std::function<void()> f, const char* what) {
        int my_seq;
        { sim::NoSched ns; c.active--; my_seq = ++c.block_seq; }
        f();
        { sim::NoSched ns;
          // a thread resumed from a stale saved context comes back from a suspension point it has already left
          if (c.block_seq != my_seq || c.done)
              HX_VIOL("duplicate-resume", "child %d (stealable=%d) returned from its suspension #%d (%s) again although it had already moved on to #%d%s: the thread was resumed from a stale context, i.e. executed twice",
                      c.id, (int)c.stealable, my_seq, what, c.block_seq, c.done ? " and finished" : "");
          if (++c.active != 1) HX_VIOL("two-vcpus", "child %d resumed while another vCPU is still executing it (active=%d)", c.id, c.active); }
    };
    bool exit_now = false;
    for (auto& s : c.steps) {
        if (hx::dropped(s.child >= 0 ? 100000 + s.child : -1)) {}
        switch (s.k) {
        case C_YIELD: block([] { thread_yield(); }, "thread_yield"); break;
        case C_SLEEP: block([&] { thread_usleep(s.us); }, "thread_usleep"); break;
        case C_MIGRATE_SELF:
            if (c.how >= 2) break;     // pooled threads stay on their vCPU
            block([&] { if (W.vcpus[s.vcpu]) thread_migrate(CURRENT, W.vcpus[s.vcpu]); }, "thread_migrate(self)");
            { sim::NoSched ns; sim::probe("self_migrated"); }
            break;
        case C_SPAWN: {
            Child& g = kids[s.child];
            { sim::NoSched ns; fail_armed++; }
            thread* th = thread_create(&child_entry, &g, 128 * 1024, 0, g.stealable ? THREAD_ENABLE_WORK_STEALING : 0);
            sim::NoSched ns; fail_armed--;
            if (!th) { g.create_failed = 1; g.done = 1; break; }
            g.th = th; g.created = 1; sim::probe("grandchild");
            break; }
        case C_EXIT: exit_now = true; break;
        }
        if (exit_now) break;
    }
    { sim::NoSched ns;
      for (auto& s : c.steps) if (s.k == C_SPAWN && !kids[s.child].created) { kids[s.child].create_failed = 1; kids[s.child].done = 1; }   // never spawned
      c.active--; c.done = 1; sim::ev(0xC81D, c.id, 2); sim::note("child %d done", c.id); }
    if (exit_now && c.how == 0) thread_exit((void*)(uintptr_t)(c.id + 1000));
}
void* child_entry(void* arg) { Child& c = *(Child*)arg; child_body(c); return (void*)(uintptr_t)(c.id + 1000); }

void gen_plan() {
    W.nvcpu = 1 + sim::rnd(4);
    int ws = sim::rnd(3);     // 0 none, 1 all active+passive, 2 mixed
    if (hx::param("no_ws", 0)) ws = 0;
    for (int v = 0; v < W.nvcpu; v++)
        W.vcpu_flags.push_back(ws == 0 ? 0 : ws == 1 ? (VCPU_ENABLE_ACTIVE_WORK_STEALING | VCPU_ENABLE_PASSIVE_WORK_STEALING) : sim::rnd(4));
    bool choreo = W.nvcpu >= 3 && ws != 0 && sim::rnd(4) == 0 && !hx::param("no_choreo", 0);
    int nparents = 1 + sim::rnd(4);
    if (choreo) {
        // vCPU 1 can be stolen from, vCPU 2 steals whenever it runs out of work, vCPU 0 directs
        W.vcpu_flags[1] |= VCPU_ENABLE_PASSIVE_WORK_STEALING; W.vcpu_flags[2] |= VCPU_ENABLE_ACTIVE_WORK_STEALING;
        nparents += 2;
    }
    scripts.resize(nparents);
    fail_at = sim::rnd(8) == 0 ? 1 + (int)sim::rnd(12) : -1;
    // a failing stack allocation is only injected where the caller is specified to handle it: plain thread_create()
    // returns nullptr. thread_create11() and the thread pool do not check for it (outside the property), so runs
    // with an injected failure use plain thread_create() only.
    bool plain_only = fail_at >= 0;
    if (hx::param("no_alloc_fail", 0)) fail_at = -1;
    auto new_child = [&](int parent, bool allow_pool) -> int {
        Child c; c.id = (int)kids.size(); c.parent = parent;
        int h = sim::rnd(10);
        c.how = h < 5 ? 0 : h < 7 ? 1 : (allow_pool ? (h < 9 ? 2 : 3) : 0);
        if (plain_only) c.how = 0;
        c.joinable = c.how == 3 || (c.how < 2 && sim::rnd(2));
        c.stealable = c.how < 2 && sim::rnd(2);
        if (hx::param("no_stealable", 0)) c.stealable = false;
        int n = sim::rnd(6);
        for (int i = 0; i < n; i++) {
            CStep s; int r = sim::rnd(10);
            if (r < 3) { s.k = C_YIELD; if (c.stealable && (choreo || hx::param("stealable_no_switch", 0))) s.k = C_SLEEP, s.us = 20; } else if (r < 7) { s.k = C_SLEEP; s.us = T_US[sim::rnd(7)]; }
            else if (r < 9) { s.k = C_MIGRATE_SELF; s.vcpu = sim::rnd(W.nvcpu); if (c.stealable && (choreo || hx::param("stealable_no_switch", 0))) s.k = C_SLEEP, s.us = 20; }
            else { s.k = C_EXIT; }
            c.steps.push_back(s);
        }
        kids.push_back(c);
        return c.id;
    };
    int first_random = 0;
    if (choreo) {
        // parent 0 (vCPU 0): a stealable sleeper is sent to vCPU 1; later a second stealable thread is pushed there and,
        // right behind it, the sleeper is interrupted: both sit in vCPU 1's standby queue when vCPU 2 looks for work
        auto mk = [&](std::vector<CStep> steps) { Child c; c.id = (int)kids.size(); c.parent = 0; c.how = 0; c.joinable = true; c.stealable = true; c.steps = steps; kids.push_back(c); return c.id; };
        CStep sl; sl.k = C_SLEEP; sl.us = 500 + sim::rnd(3000); CStep s2; s2.k = C_SLEEP; s2.us = T_US[sim::rnd(7)]; CStep y; y.k = C_YIELD;
        CStep s1; s1.k = C_SLEEP; s1.us = 1; (void)y;
        int S = mk({sl, s2}), M = mk({s1, s2, s1});     // (no yields: runs with stealable threads that yield are attributed to the open finding)
        auto op = [&](int k, int child, int vcpu, uint64_t us) { POp o; o.idx = n_ops++; o.k = k; o.child = child; o.vcpu = vcpu; o.us = us; return o; };
        auto& sc = scripts[0];
        sc.push_back(op(P_CREATE, S, 0, 0)); sc.push_back(op(P_MIGRATE, S, 1, 0));
        sc.push_back(op(P_CREATE, M, 0, 0)); sc.push_back(op(P_PAUSE, -1, 0, 50 + sim::rnd(300)));
        POp mi = op(P_MIGRATE_THEN_INTR, S, 1, 0); mi.foreign = 0; mi.a_id = M; mi.b_id = S; sc.push_back(mi);
        sc.push_back(op(P_PAUSE, -1, 0, sim::rnd(200)));
        sc.push_back(op(P_JOIN, M, 0, 0)); sc.push_back(op(P_JOIN, S, 0, 0));
        W.add(0, [](int) { run_parent(0); });
        // parent 1 (vCPU 2): wakes up again and again, and every time it goes back to sleep its vCPU looks for work to steal
        int nt = 10 + sim::rnd(40);
        for (int i = 0; i < nt; i++) scripts[1].push_back(op(P_PAUSE, -1, 0, T_US[1 + sim::rnd(3)]));
        W.add(2, [](int) { run_parent(1); });
        first_random = 2;
    }
    for (int p = first_random; p < nparents; p++) {
        std::vector<int> mine;
        int n = 2 + sim::rnd(10);
        for (int i = 0; i < n; i++) {
            POp o; o.idx = n_ops++;
            int r = sim::rnd(10);
            if (r < 4 || mine.empty()) {
                o.k = P_CREATE; o.child = new_child(p, true); mine.push_back(o.child);
                if (sim::rnd(4) == 0 && kids.size() < 60) {      // grandchild, spawned by the child itself
                    int g = new_child(-o.child - 2, false);
                    kids[g].how = 0; kids[g].joinable = false;
                    CStep s; s.k = C_SPAWN; s.child = g;
                    auto& st = kids[o.child].steps; st.insert(st.begin() + sim::rnd(st.size() + 1), s);
                }
            } else if (r < 6) { o.k = P_JOIN; o.child = mine[sim::rnd(mine.size())]; }
            else if (r < 7) { o.k = P_INTR; o.child = mine[sim::rnd(mine.size())]; if (sim::rnd(2)) o.foreign = sim::rnd(1000); }
            else if (r < 8) { o.k = P_MIGRATE; o.child = mine[sim::rnd(mine.size())]; o.vcpu = sim::rnd(W.nvcpu); if (sim::rnd(2)) o.foreign = sim::rnd(1000); }
            else if (r < 9 && W.nvcpu > 1 && sim::rnd(2)) { o.k = P_MIGRATE_THEN_INTR; o.child = mine[sim::rnd(mine.size())]; o.vcpu = sim::rnd(W.nvcpu); o.foreign = sim::rnd(1000); }
            else { o.k = P_PAUSE; o.us = sim::rnd(3) ? T_US[sim::rnd(7)] : 0; }
            scripts[p].push_back(o);
        }
        // every joinable child is joined by the end
        for (int c : mine) if (kids[c].joinable) { POp o; o.idx = n_ops++; o.k = P_JOIN; o.child = c; scripts[p].push_back(o); }
        W.add(sim::rnd(W.nvcpu), [p](int) { run_parent(p); });
    }
    // interrupts aimed at the parents themselves: they may land while a parent sits in thread_join(), in a sleep, or anywhere
    if (sim::rnd(3) == 0 && !hx::param("no_parent_interrupts", 0)) {
        int n = 1 + sim::rnd(8), np = nparents;
        std::vector<std::pair<int, uint64_t>> plan;
        for (int i = 0; i < n; i++) plan.push_back({(int)sim::rnd(np), T_US[sim::rnd(7)]});
        W.add(sim::rnd(W.nvcpu), [plan](int) {
            for (auto& pr : plan) {
                thread_usleep(pr.second);
                phx::ThreadRec& tg = W.threads[pr.first];
                if (!tg.th || !tg.started || tg.done) continue;
                thread_interrupt(tg.th, EINTR);
                sim::probe("interrupt_to_parent");
            }
        });
    }
}

void do_join(Child& c, int p, const POp& o) {
    if (!c.created || !c.joinable || c.join_started) return;
    for (;;) { { sim::NoSched ns; if (!c.pins) { c.join_started = 1; break; } } thread_yield(); }
    { sim::NoSched ns; sim::note("parent %d joins child %d (done=%d)", p, c.id, c.done); if (!c.done) sim::probe("join_before_done"); }
    void* rv = nullptr;
    if (c.how == 3) pools[W.threads[p].vcpu]->join(c.ctl);
    else rv = thread_join(c.jh);
    sim::NoSched ns;
    if (!c.done) HX_VIOL("join-early", "thread_join of child %d returned before its entry function returned", c.id);
    // thread_create11 wraps the function in a stub that always returns nullptr
    void* expect = c.how == 1 ? nullptr : (void*)(uintptr_t)(c.id + 1000);
    if (c.how != 3 && rv != expect) HX_VIOL("join-retval", "thread_join of child %d returned %p, expected %p", c.id, rv, expect);
    c.joined++;
    sim::probe("nontrivial");
}

}  // namespace

void run_parent(int p) {
    phx::ThreadRec& me = W.threads[p];
    for (auto& o : scripts[p]) {
        Child* c = o.child >= 0 ? &kids[o.child] : nullptr;
        if (hx::dropped(o.idx)) {
            if (o.k == P_CREATE) { sim::NoSched ns; c->create_failed = 1; c->done = 1; for (auto& s : c->steps) if (s.k == C_SPAWN) { kids[s.child].create_failed = 1; kids[s.child].done = 1; } }
            continue;
        }
        switch (o.k) {
        case P_PAUSE: { phx::Where w(me, "pause", o.idx); if (o.us) thread_usleep(o.us); else thread_yield(); break; }
        case P_CREATE: {
            phx::Where w(me, "create", o.idx);
            c->home_vcpu = me.vcpu;
            uint64_t flags = (c->stealable ? THREAD_ENABLE_WORK_STEALING : 0);
            if (c->how == 0) {
                { sim::NoSched ns; fail_armed++; }
                thread* th = thread_create(&child_entry, c, 128 * 1024, 0, flags | (c->joinable && (c->stealable || sim::frnd(2)) ? THREAD_JOINABLE : 0));     // (a stealable thread may run elsewhere at once: it must be born joinable)
                { sim::NoSched ns; fail_armed--; }
                if (!th) { sim::NoSched ns; c->create_failed = 1; c->done = 1; sim::probe("create_failed"); break; }
                c->th = th;
                if (c->joinable) c->jh = thread_enable_join(th);
            } else if (c->how == 1) {
                thread* th = thread_create11(128 * 1024, &child_entry, (void*)c);
                if (!th) { sim::NoSched ns; c->create_failed = 1; c->done = 1; sim::probe("create_failed"); break; }
                c->th = th;
                if (c->joinable) c->jh = thread_enable_join(th);
            } else {
                c->ctl = pools[me.vcpu]->thread_create_ex(&child_entry, c, c->how == 3);
                if (!c->ctl) { sim::NoSched ns; c->create_failed = 1; c->done = 1; break; }
                c->th = c->ctl->th;
            }
            sim::NoSched ns; c->created = 1; sim::ev(0xC8EA7E, c->id); sim::note("parent %d created child %d how=%d joinable=%d", p, c->id, c->how, (int)c->joinable);
            break; }
        case P_JOIN: { phx::Where w(me, "join", o.idx); do_join(*c, p, o); break; }
        case P_MIGRATE_THEN_INTR: {
            // one thread is pushed to another vCPU and, right behind it, a second thread (asleep there, with luck) is
            // interrupted: both land in that vCPU's standby queue back to back
            Child* a = nullptr; Child* b = nullptr;
            {
                sim::NoSched ns;
                std::vector<Child*> cand;
                for (auto& k : kids) if (k.created && k.joinable && !k.join_started && k.how < 2 && !k.create_failed) cand.push_back(&k);
                if (cand.size() < 2) break;
                a = cand[o.foreign % cand.size()]; b = cand[(o.foreign / 7 + 1 + o.foreign % cand.size()) % cand.size()];
                if (o.a_id >= 0) { a = b = nullptr; for (auto k : cand) { if (k->id == o.a_id) a = k; if (k->id == o.b_id) b = k; } if (!a || !b) break; }
                if (a == b) break;
                a->pins++; b->pins++;
            }
            if (W.vcpus[o.vcpu]) { int r = thread_migrate(a->th, W.vcpus[o.vcpu]); if (r == 0) sim::probe("migrate_then_interrupt"); }
            thread_interrupt(b->th, o.eno);
            { sim::NoSched ns; a->pins--; b->pins--; }
            break; }
        case P_INTR:
        case P_MIGRATE: {
            // only threads that are certainly alive: joinable and not yet joined; a thread of another family (usually on
            // another vCPU) is pinned for the duration of the call, so that its own parent does not join it meanwhile
            Child* t = c; bool pinned = false;
            if (o.foreign >= 0) {
                sim::NoSched ns;
                std::vector<Child*> cand;
                for (auto& k : kids) if (k.created && k.joinable && !k.join_started && k.how < 2 && !k.create_failed) cand.push_back(&k);
                if (cand.empty()) break;
                t = cand[o.foreign % cand.size()]; t->pins++; pinned = true;
            } else if (!(c->created && c->joinable && !c->join_started && c->how < 2)) break;
            if (o.k == P_INTR) { thread_interrupt(t->th, o.eno); sim::probe(pinned ? "interrupted_thread_of_other_family" : "interrupted_child"); }
            else if (W.vcpus[o.vcpu]) { int r = thread_migrate(t->th, W.vcpus[o.vcpu]); sim::NoSched ns; if (r == 0) sim::probe(pinned ? "migrated_thread_of_other_family" : "migrated_other"); }
            if (pinned) { sim::NoSched ns; t->pins--; }
            break; }
        }
    }
    // a parent stays until its whole family has finished
    phx::Where w(me, "wait-family", -1);
    for (;;) {
        bool all = true;
        { sim::NoSched ns; for (auto& k : kids) { int root = k.parent; while (root < 0) root = kids[-root - 2].parent; if (root == p && !k.done && !(k.parent < 0 && !kids[-k.parent - 2].created)) all = false; } }
        if (all) break;
        thread_usleep(500);
    }
}

void harness_run(uint64_t seed) {
    phx::quiet_logs();
    gen_plan();
    char plan[256];
    snprintf(plan, sizeof plan, "{\"vcpus\":%d,\"parents\":%zu,\"children\":%zu,\"alloc_fail_at\":%d,\"ops\":%d}", W.nvcpu, scripts.size(), kids.size(), fail_at, n_ops);
    sim::extra_json("plan", plan);
    char nb[32]; snprintf(nb, sizeof nb, "%d", n_ops); sim::extra_json("nops", nb);
    // Known finding C05-worksteal-switch-race (see known_findings.json): with active+passive work stealing, a stealable
    // thread that yields or migrates itself can be taken by a stealer while it is still switching out. Runs in which
    // that combination exists carry a tag, so that only they are attributed to the finding.
    {
        bool active = false, passive = false, risky_thread = false;
        for (auto f : W.vcpu_flags) { if (f & VCPU_ENABLE_ACTIVE_WORK_STEALING) active = true; if (f & VCPU_ENABLE_PASSIVE_WORK_STEALING) passive = true; }
        for (auto& c : kids) if (c.stealable) for (auto& st : c.steps) if (st.k == C_YIELD || st.k == C_MIGRATE_SELF) risky_thread = true;
        if (active && passive && W.nvcpu > 1 && risky_thread)
            sim::set_context_tag("[work stealing active+passive, and a stealable thread yields or migrates itself]");
    }
    sim::set_poison_property("use-after-free-stack");
    set_photon_thread_stack_allocator(Delegate<void*, size_t>(&stack_alloc, nullptr), Delegate<void, void*, size_t>(&stack_dealloc, nullptr));
    pools.assign(W.nvcpu, nullptr);
    std::vector<uint64_t>* initial = new std::vector<uint64_t>(W.nvcpu, 0);
    W.vcpu_pre = [initial](int v) { pools[v] = new_thread_pool(2 + sim::rnd(3), 128 * 1024); (*initial)[v] = get_info(INFO_THREAD_NUM); };
    W.vcpu_end = [initial](int v) {
        delete_thread_pool(pools[v]);
        // (e) the thread count of this vCPU returns to its initial value (threads that migrated here included)
        uint64_t deadline = sim::now_ns() + 2000000000ULL;
        while (get_info(INFO_THREAD_NUM) != (*initial)[v]) {
            if (sim::now_ns() > deadline)
                HX_VIOL("thread-count", "vcpu%d: INFO_THREAD_NUM is %llu after all threads finished, was %llu initially", v, (unsigned long long)get_info(INFO_THREAD_NUM), (unsigned long long)(*initial)[v]);
            thread_usleep(200);
        }
    };
    sim::start();
    W.deadline_ns = sim::now_ns() + 10000000000ULL;
    W.run();
    for (auto& c : kids) {
        bool parent_created = c.parent >= 0 || kids[-c.parent - 2].created;
        if (!c.created) continue;
        if (c.runs != 1) HX_VIOL(c.runs ? "ran-twice" : "never-ran", "child %d (how %d) ran %d times", c.id, c.how, c.runs);
        if (!c.done) HX_VIOL("lost-thread", "child %d never finished", c.id);
        if (c.joinable && c.joined != 1) HX_VIOL("join-count", "joinable child %d joined %d times", c.id, c.joined);
        if (c.how < 2 && c.stack_freed != 1) HX_VIOL("stack-leak", "stack of child %d (joinable %d) released %d times after it finished", c.id, (int)c.joinable, c.stack_freed);
        (void)parent_created;
    }
    sim::probe("nontrivial");
    sim::finish("ok", "", "lifecycle vcpus=%d children=%zu allocs=%zu", W.nvcpu, kids.size(), allocs.size());
}

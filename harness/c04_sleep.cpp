// C04 — thread_usleep / timeout / thread_interrupt / thread_shutdown contract and the sleep queue.
#include "phx.h"
#include <time.h>
#include <map>
#include <algorithm>

using namespace photon;

// debugging aid only (never a verdict): layout of photon::thread / vcpu_t as of the pinned tree
static const struct { size_t thread_offset_idx = 32, thread_offset_state = 52, thread_offset_ts_wakeup = 56, vcpu_offset_sleepq = 16; } gdb_offsets;
namespace {

enum { OP_SLEEP, OP_YIELD, OP_INTR, OP_SHUTDOWN };
struct Op { int idx, k; uint64_t us = 0; bool inf = false; int target = 0, eno = 0; uint64_t pause_us = 0; };

phx::World W;
std::vector<std::vector<Op>> scripts;
std::vector<int> role;                 // 0 sleeper, 1 photon interrupter
std::vector<std::vector<Op>> os_scripts;
int n_ops = 0, n_sleepers = 0, n_pintr = 0, n_ointr = 0;
// interrupt ledger: per target, errno -> number sent and not yet consumed
struct Intr { int eno; uint64_t seq0, seq1; bool used; };   // seq1 == 0: thread_interrupt() has not returned yet
std::vector<std::vector<Intr>> pending;
uint64_t g_seq = 0;
std::vector<char> shut;               // harness view of the shutdown mark (set before thread_shutdown() is called)
std::vector<uint64_t> shut_ret_us;    // true time at which thread_shutdown() returned for this target (0 = not yet)
struct SState { volatile bool in_inf = false; volatile uint64_t since = 0; };
std::vector<SState> sst;
volatile int intr_done = 0;
volatile uint64_t last_activity_ns = 0;
bool timing_verdicts = false, cross_shutdown = false;
uint64_t slack_us = 0;

// deadlines: equal, near-equal, widely spread, zero, infinite
const uint64_t D_US[] = {0, 1, 1, 2, 10, 50, 100, 100, 101, 137, 500, 1000, 1000, 5000, 20000, 100000, 1000000};
const int EN[] = {EINTR, ECANCELED, EAGAIN, EIO, EBUSY};
const int E_CTRL = ECONNABORTED;

// debugging aid only (never a verdict): dump the sleep heap of the calling vCPU through the offsets photon exports for gdb
void dump_sleepq(const char* tag) {
    sim::NoSched ns;
    char* v = (char*)photon::get_vcpu();
    char** vec = (char**)(v + gdb_offsets.vcpu_offset_sleepq);
    char** b = (char**)vec[0]; char** e = (char**)vec[1];
    std::string s;
    for (char** p = b; p < e; p++) {
        char buf[64]; snprintf(buf, sizeof buf, " [%d idx%d ts%llu st%d]", (int)(p - b), *(int*)(*p + gdb_offsets.thread_offset_idx),
            (unsigned long long)*(uint64_t*)(*p + gdb_offsets.thread_offset_ts_wakeup) % 100000000, (int)*(uint16_t*)(*p + gdb_offsets.thread_offset_state));
        s += buf;
    }
    sim::note("%s sleepq:%s", tag, s.c_str());
}
uint64_t true_now_us() { struct timespec ts; clock_gettime(CLOCK_BOOTTIME, &ts); return ts.tv_sec * 1000000ULL + ts.tv_nsec / 1000; }

void gen_plan() {
    W.nvcpu = 1 + sim::rnd(3);
    int big = sim::rnd(4) == 0;
    n_sleepers = big ? 8 + sim::rnd(33) : 1 + sim::rnd(8);
    n_pintr = sim::rnd(3); n_ointr = sim::rnd(3) == 0 ? 1 + sim::rnd(2) : 0;
    bool with_shutdown = sim::rnd(5) < 2;
    bool sweeper = with_shutdown && sim::rnd(2);        // one more interrupter thread that shuts the sleepers down one after the other
    if (sweeper) n_pintr++;
    int nth = n_sleepers + n_pintr;
    scripts.resize(nth); role.resize(nth); pending.resize(nth); shut.assign(nth, 0); shut_ret_us.assign(nth + 2, 0); sst.resize(nth);
    cross_shutdown = hx::param("cross_shutdown", 1) && sim::rnd(2);
    for (int t = 0; t < nth; t++) {
        role[t] = t < n_sleepers ? 0 : 1;
        if (sweeper && t == nth - 1) {
            int k = std::min(n_sleepers, 12);
            for (int i = 0; i < k; i++) { Op o; o.idx = n_ops++; o.k = OP_SHUTDOWN; o.target = (i * 7 + 3) % n_sleepers; o.pause_us = D_US[sim::rnd(10)]; scripts[t].push_back(o); }
            continue;
        }
        int n = big ? 1 + sim::rnd(4) : 1 + sim::rnd(10);
        for (int i = 0; i < n; i++) {
            Op o; o.idx = n_ops++;
            if (role[t] == 0) {
                int r = sim::rnd(12);
                if (r < 2) o.k = OP_YIELD;
                else if (r == 2 && with_shutdown) { o.k = OP_SHUTDOWN; o.target = -1; }   // self
                else { o.k = OP_SLEEP; o.inf = sim::rnd(14) == 0; o.us = D_US[sim::rnd(sizeof D_US / sizeof D_US[0])];
                       if (with_shutdown && sim::rnd(2)) o.us = D_US[13 + sim::rnd(4)]; }    // long sleeps: a missed shutdown mark is visible
            } else {
                int r = sim::rnd(10);
                if (r < 4 && with_shutdown) { o.k = OP_SHUTDOWN; o.target = sim::rnd(n_sleepers); }
                else { o.k = OP_INTR; o.target = sim::rnd(n_sleepers); o.eno = EN[sim::rnd(5)]; }
                o.pause_us = D_US[sim::rnd(14)];
            }
            scripts[t].push_back(o);
        }
    }
    os_scripts.resize(n_ointr);
    for (auto& s : os_scripts) {
        int n = 1 + sim::rnd(8);
        for (int i = 0; i < n; i++) { Op o; o.idx = n_ops++; o.k = OP_INTR; o.target = sim::rnd(n_sleepers); o.eno = EN[sim::rnd(5)]; o.pause_us = D_US[sim::rnd(14)]; s.push_back(o); }
    }
}

struct Fail { int t, e, op; const char* what; uint64_t b, end; };
std::vector<Fail> fails;
void consume(int t, int e, const char* what, int opidx, uint64_t call_seq) {
    // called under NoSched; matched against the interrupts after the run (match_interrupts)
    if (e == EPERM && shut[t]) { sim::probe("shutdown_eperm"); return; }
    fails.push_back({t, e, opidx, what, call_seq, ++g_seq});
}
// A failed call must be matched by a distinct interrupt with that errno which was still in flight or arrived
// after the call began: an interrupt that found its target RUNNING (outside any blocking call) is dropped by
// design and must not surface in a later, unrelated sleep. Failures of one thread are disjoint in time, so
// earliest-deadline-first over the interrupts decides whether a valid assignment exists.
void match_interrupts() {
    for (auto& f : fails) {     // already in time order per thread
        Intr* best = nullptr; Intr* stale = nullptr;
        for (auto& i : pending[f.t]) {
            if (i.used || i.eno != f.e) continue;
            uint64_t s1 = i.seq1 ? i.seq1 : ~0ULL;
            if (s1 >= f.b && i.seq0 <= f.end) { if (!best || s1 < (best->seq1 ? best->seq1 : ~0ULL)) best = &i; }
            else if (s1 < f.b) stale = &i;
        }
        if (best) { best->used = true; sim::probe("interrupt_delivered"); continue; }
        if (stale)
            HX_VIOL("stale-interrupt", "%s of th%d (op %d, began at seq %llu) failed with errno %d, but the only unconsumed interrupt with that errno had completed at seq %llu, before the call began: it was delivered to a later, unrelated call",
                    f.what, f.t, f.op, (unsigned long long)f.b, f.e, (unsigned long long)stale->seq1);
        HX_VIOL("phantom-interrupt", "%s of th%d (op %d) failed with errno %d but no unconsumed interrupt with that errno was sent to it", f.what, f.t, f.op, f.e);
    }
}

void send_interrupt(int from, int target, int eno, int opidx) {
    phx::ThreadRec& tg = W.threads[target];
    if (!tg.th || !tg.started || tg.done) return;
    size_t k;
    { sim::NoSched ns; pending[target].push_back({eno, ++g_seq, 0, false}); k = pending[target].size() - 1; last_activity_ns = sim::now_ns(); sim::ev(0x1277, target, eno);
      sim::note("th%d op%d interrupt th%d errno %d (seq %llu)", from, opidx, target, eno, (unsigned long long)g_seq); }
    thread_interrupt(tg.th, eno);
    { sim::NoSched ns; pending[target][k].seq1 = ++g_seq; }
}

void do_sleep(int t, const Op& o) {
    phx::ThreadRec& me = W.threads[t];
    uint64_t before = photon::now, tbefore = true_now_us(), pert0 = sim::perturbed_ns(), call_seq;
    bool was_shut;
    { sim::NoSched ns; call_seq = ++g_seq; was_shut = shut[t]; sst[t].in_inf = o.inf; sst[t].since = sim::now_ns(); sim::ev(0x5104, t, o.idx);
      sim::note("th%d op%d usleep(%s%llu) now=%llu", t, o.idx, o.inf ? "inf " : "", (unsigned long long)o.us, (unsigned long long)before); }
    int r;
    if (hx::param("dumpq", 0)) dump_sleepq("before-sleep");
    { phx::Where w(me, o.inf ? "usleep(inf)" : "usleep", o.idx); r = thread_usleep(o.inf ? -1ULL : o.us); }
    if (hx::param("dumpq", 0)) dump_sleepq("after-sleep");
    int en = errno;
    uint64_t after = photon::now, tafter = true_now_us();
    sim::NoSched ns;
    sst[t].in_inf = false; last_activity_ns = sim::now_ns();
    sim::note("th%d op%d usleep -> %d errno %d now=%llu true=%llu", t, o.idx, r, r ? en : 0, (unsigned long long)after, (unsigned long long)tafter);
    // (e) once thread_shutdown() has returned for it, a thread never stays blocked for more than 10 ms, whatever the call returns
    if (shut_ret_us[t] && timing_verdicts && sim::perturbed_ns() == pert0) {
        uint64_t from = std::max(tbefore, (uint64_t)shut_ret_us[t]);
        if (tafter > from + 10000 + slack_us)
            HX_VIOL("shutdown", "th%d stayed in thread_usleep(%s%llu) for %llu us after thread_shutdown() had returned for it (> 10 ms, op %d)", t, o.inf ? "inf " : "",
                    (unsigned long long)o.us, (unsigned long long)(tafter - from), o.idx);
    }
    if (r == 0) {
        if (o.inf) HX_VIOL("early-return", "thread_usleep(-1) of th%d returned 0 (op %d)", t, o.idx);
        // (a) at least t elapsed on the runtime clock
        if (after < before + o.us)
            HX_VIOL("early-return", "thread_usleep(%llu) of th%d returned 0 after only %llu us of photon::now (op %d)", (unsigned long long)o.us, t, (unsigned long long)(after - before), o.idx);
        // (c) lateness, only where the simulator itself added no delay
        if (timing_verdicts && sim::perturbed_ns() == pert0 && tafter > tbefore + o.us + slack_us)
            HX_VIOL("late-wakeup", "thread_usleep(%llu) of th%d returned %llu us after it was called: %llu us later than its deadline (slack %llu, op %d)",
                    (unsigned long long)o.us, t, (unsigned long long)(tafter - tbefore), (unsigned long long)(tafter - tbefore - o.us), (unsigned long long)slack_us, o.idx);
        if (o.us >= 100) sim::probe("nontrivial");
    } else {
        sim::probe("nontrivial");
        if (r != -1) HX_VIOL("result", "thread_usleep returned %d", r);
        consume(t, en, "thread_usleep", o.idx, call_seq);
    }
}

void run_script(int t) {
    phx::ThreadRec& me = W.threads[t];
    for (auto& o : scripts[t]) {
        if (hx::dropped(o.idx)) continue;
        switch (o.k) {
        case OP_SLEEP: do_sleep(t, o); break;
        case OP_YIELD: {
            phx::Where w(me, "yield", o.idx);
            uint64_t call_seq; { sim::NoSched ns; call_seq = ++g_seq; }
            int e = thread_yield();
            if (e) { sim::NoSched ns; sim::note("th%d op%d yield -> %d", t, o.idx, e); consume(t, e, "thread_yield", o.idx, call_seq); sim::probe("yield_interrupted"); }
            break; }
        case OP_INTR: {
            phx::Where w(me, "intr", o.idx);
            if (o.pause_us) { if (thread_usleep(o.pause_us) < 0) { /* interrupters are never targets */ } }
            send_interrupt(t, o.target, o.eno, o.idx);
            break; }
        case OP_SHUTDOWN: {
            int target = o.target < 0 ? t : o.target;
            phx::ThreadRec& tg = W.threads[target];
            if (o.pause_us) thread_usleep(o.pause_us);
            if (!tg.th || !tg.started || tg.done) break;
            if (tg.vcpu != me.vcpu && !cross_shutdown) break;
            { sim::NoSched ns; shut[target] = 1; sim::ev(0x5D0, target); sim::note("th%d op%d thread_shutdown(th%d)", t, o.idx, target); last_activity_ns = sim::now_ns(); }
            thread_shutdown(tg.th, true);
            { sim::NoSched ns; if (!shut_ret_us[target]) shut_ret_us[target] = true_now_us(); }
            sim::probe(tg.vcpu != me.vcpu ? "shutdown_marked_cross_vcpu" : "shutdown_marked");
            break; }
        }
    }
    sim::NoSched ns;
    if (role[t] == 1) intr_done++;
    last_activity_ns = sim::now_ns();
}

// ends infinite sleeps once everything else is over
void controller(int self_id) {
    phx::ThreadRec& me = W.threads[self_id];
    for (;;) {
        { phx::Where w(me, "ctrl-poll", -1); thread_usleep(5000); }
        std::vector<int> targets;
        {
            sim::NoSched ns;
            bool done = true;
            for (int t = 0; t < n_sleepers; t++) if (!W.threads[t].done) done = false;
            if (done && intr_done == n_pintr + n_ointr) return;
            if (intr_done < n_pintr + n_ointr) continue;
            uint64_t now = sim::now_ns();
            for (int t = 0; t < n_sleepers; t++)
                if (!W.threads[t].done && sst[t].in_inf && now - sst[t].since > 50 * 1000 * 1000) targets.push_back(t);
        }
        for (int t : targets) { sim::probe("inf_sleep_ended_by_controller"); send_interrupt(self_id, t, E_CTRL, -1); }
    }
}

}  // namespace

void harness_run(uint64_t seed) {
    phx::quiet_logs();
    gen_plan();
    for (int t = 0; t < (int)scripts.size(); t++) W.add(sim::rnd(W.nvcpu), [t](int) { run_script(t); });
    W.add(sim::rnd(W.nvcpu), [](int id) { controller(id); });
    pending.resize(W.threads.size()); shut.resize(W.threads.size(), 0); sst.resize(W.threads.size());
    char plan[256];
    snprintf(plan, sizeof plan, "{\"vcpus\":%d,\"sleepers\":%d,\"photon_interrupters\":%d,\"os_interrupters\":%d,\"ops\":%d}", W.nvcpu, n_sleepers, n_pintr, n_ointr, n_ops);
    sim::extra_json("plan", plan);
    char nb[32]; snprintf(nb, sizeof nb, "%d", n_ops); sim::extra_json("nops", nb);
    timing_verdicts = sim::cfg.cpu_cost_ns == 0 && sim::cfg.n_stalls == 0;
    slack_us = 6ULL * sim::cfg.tsc_gran_us + 50;
    W.vcpu_end = [](int v) {
        uint64_t n = photon::get_info(photon::INFO_SLEEPING_THREAD_NUM);
        // only the vCPU's main thread is left; it is running, so nothing may be in the sleep queue
        if (n != 0) HX_VIOL("sleepq-leak", "vcpu%d: %llu entries left in the sleep queue after all threads finished", v, (unsigned long long)n);
    };
    sim::start();
    W.deadline_ns = sim::now_ns() + 60000000000ULL;
    std::vector<std::thread> os;
    for (int i = 0; i < n_ointr; i++) os.emplace_back([i] {
        for (auto& o : os_scripts[i]) {
            if (hx::dropped(o.idx)) continue;
            sim::sleep_ns(o.pause_us * 1000 + 1000);
            send_interrupt(-1 - i, o.target, o.eno, o.idx);
            sim::probe("os_thread_interrupt");
        }
        sim::NoSched ns; intr_done++; last_activity_ns = sim::now_ns();
    });
    W.run();
    for (auto& t : os) t.join();
    match_interrupts();
    sim::finish("ok", "", "sleep vcpus=%d sleepers=%d", W.nvcpu, n_sleepers);
}

// C06 — photon::rwlock and photon::qrwlock: writers exclusive, readers shared,
// a failed lock() is a no-op, waiters are admitted after the last holder unlocks.
#include "phx.h"

using namespace photon;

void run_script(int t);

namespace {

struct LockObj {
    bool q = false;
    rwlock* rw = nullptr; qrwlock* qrw = nullptr;
    volatile int readers = 0, writers = 0, w_waiting = 0;
    volatile uint64_t last_writer_end_ns = 0, free_since_ns = 0;
    int lock(int mode, Timeout t) { return q ? qrw->lock(mode, t) : rw->lock(mode, t); }
    int try_lock(int mode) { return qrw->try_lock(mode); }
    int unlock() { return q ? qrw->unlock() : rw->unlock(); }
};

enum { OP_ACQ, OP_PAUSE, OP_INTR };
struct Op { int idx, k; int lock = 0, wr = 0, how = 0, hold = 0, target = 0, eno = 0; uint64_t timeout_us = 0, hold_us = 0, pause_us = 0; };

std::vector<LockObj> locks;
std::vector<std::vector<Op>> scripts;
std::vector<int> intr_sent;
phx::World W;
int n_ops = 0, n_workers = 0;
bool inf_only = false, timing_verdicts = false;
const uint64_t T_US[] = {1, 20, 50, 100, 150, 200, 400, 1000, 3000};

void gen_plan() {
    if (sim::rnd(6) == 0 && !hx::param("no_choreo", 0)) {
        // a writer holds the lock for X us; on another vCPU a reader asks for it with a timeout that ends right when the writer
        // lets go; a second writer queues behind the reader: unlock() and the reader's timeout meet at the head of the queue
        W.nvcpu = 3; n_workers = 3 + sim::rnd(2);
        locks.resize(1); locks[0].q = 0; locks[0].rw = new rwlock();
        inf_only = false;
        scripts.resize(n_workers); intr_sent.assign(n_workers, 0);
        uint64_t X = T_US[3 + sim::rnd(5)], p1 = T_US[sim::rnd(3)], p2 = p1 + T_US[sim::rnd(3)];
        auto acq = [&](int wr, int how, uint64_t tmo, int hold, uint64_t hold_us) { Op o; o.idx = n_ops++; o.k = OP_ACQ; o.lock = 0; o.wr = wr; o.how = how; o.timeout_us = tmo; o.hold = hold; o.hold_us = hold_us; return o; };
        auto pause = [&](uint64_t us) { Op o; o.idx = n_ops++; o.k = OP_PAUSE; o.pause_us = us; return o; };
        scripts[0].push_back(acq(1, 0, 0, 2, X));                                                     // the holder: lock W, sleep X, unlock
        scripts[1].push_back(pause(p1)); scripts[1].push_back(acq(0, 2, X > p1 ? X - p1 : 1, 1, 20)); // the reader whose deadline is the unlock
        scripts[2].push_back(pause(p2)); scripts[2].push_back(acq(1, 0, 0, 1, 20));                    // the writer behind it
        for (int t = 3; t < n_workers; t++) { scripts[t].push_back(pause(p2 + T_US[sim::rnd(4)])); scripts[t].push_back(acq(sim::rnd(2), sim::rnd(2) ? 0 : 2, T_US[3 + sim::rnd(6)], 1, 20)); }
        for (int t = 0; t < n_workers; t++) W.add(t < 3 ? t : (int)sim::rnd(3), [t](int) { run_script(t); });
        sim::probe("unlock_meets_timeout_choreography");
        return;
    }
    W.nvcpu = 1 + sim::rnd(3);
    n_workers = 2 + sim::rnd(6);
    int nlocks = 1 + (sim::rnd(4) == 0);
    locks.resize(nlocks);
    for (auto& l : locks) { l.q = sim::rnd(2); if (l.q) l.qrw = new qrwlock(); else l.rw = new rwlock(); }
    inf_only = sim::rnd(3) == 0;      // FIFO class: only untimed lock(), no interrupts -> admission-latency verdicts are sound
    int n_intr = (!inf_only && sim::rnd(2)) ? 1 + sim::rnd(2) : 0;
    int wmix = sim::rnd(3);    // 0 reader-heavy, 1 balanced, 2 writer-heavy
    scripts.resize(n_workers + n_intr); intr_sent.assign(n_workers + n_intr, 0);
    for (int t = 0; t < n_workers; t++) {
        int n = 2 + sim::rnd(9);
        for (int i = 0; i < n; i++) {
            Op o; o.idx = n_ops++;
            if (sim::rnd(6) == 0) { o.k = OP_PAUSE; o.pause_us = sim::rnd(3) ? T_US[sim::rnd(7)] : 0; }
            else {
                o.k = OP_ACQ; o.lock = sim::rnd(nlocks);
                o.wr = sim::rnd(6) < (wmix == 0 ? 1 : wmix == 1 ? 3 : 5);
                int h = sim::rnd(10);
                o.how = h < 4 ? 0 : (h < 8 ? 2 : (locks[o.lock].q ? 1 : 2));   // 0 lock(inf) 1 try_lock 2 lock(timeout)
                if (inf_only) o.how = 0;
                o.timeout_us = sim::rnd(8) == 0 ? 0 : T_US[sim::rnd(9)];
                o.hold = sim::rnd(3); o.hold_us = T_US[1 + sim::rnd(6)];
            }
            scripts[t].push_back(o);
        }
    }
    static const int EN[] = {EINTR, ECANCELED, EAGAIN, EIO};
    for (int t = n_workers; t < n_workers + n_intr; t++) {
        int n = 2 + sim::rnd(10);
        for (int i = 0; i < n; i++) { Op o; o.idx = n_ops++; o.k = OP_INTR; o.target = sim::rnd(n_workers); o.eno = EN[sim::rnd(4)]; o.pause_us = T_US[sim::rnd(8)]; scripts[t].push_back(o); }
    }
    for (int t = 0; t < (int)scripts.size(); t++) W.add(sim::rnd(W.nvcpu), [t](int) { run_script(t); });
}

void occupancy_check(LockObj& L, int t, const Op& o, const char* when) {
    if (o.wr ? (L.writers != 1 || L.readers != 0) : (L.writers != 0 || L.readers < 1))
        HX_VIOL("exclusion", "%s lock %d (%s) violated %s th%d's %s hold: readers=%d writers=%d (op %d)", L.q ? "qrwlock" : "rwlock",
                (int)(&L - &locks[0]), L.q ? "q" : "rw", when, t, o.wr ? "write" : "read", L.readers, L.writers, o.idx);
}

}  // namespace

void run_script(int t) {
    phx::ThreadRec& me = W.threads[t];
    for (auto& o : scripts[t]) {
        if (hx::dropped(o.idx)) continue;
        if (o.k == OP_PAUSE) { phx::Where w(me, "pause", o.idx); if (o.pause_us) thread_usleep(o.pause_us); else thread_yield(); continue; }
        if (o.k == OP_INTR) {
            phx::Where w(me, "intr", o.idx);
            thread_usleep(o.pause_us);
            phx::ThreadRec& tg = W.threads[o.target];
            if (!tg.th || !tg.started) continue;
            { sim::NoSched ns; intr_sent[o.target]++; sim::ev(0x1277, o.target, o.eno); sim::note("th%d interrupts th%d errno %d", t, o.target, o.eno); }
            thread_interrupt(tg.th, o.eno);
            continue;
        }
        LockObj& L = locks[o.lock];
        int mode = o.wr ? WLOCK : RLOCK;
        Timeout tmo; int r;
        uint64_t wait_start = sim::now_ns(), pert0 = sim::perturbed_ns();
        if (o.wr) { sim::NoSched ns; L.w_waiting++; }
        {
            phx::Where w(me, o.how == 1 ? "try_lock" : (o.how == 2 ? (o.wr ? "lock(W,timeout)" : "lock(R,timeout)") : (o.wr ? "lock(W)" : "lock(R)")), o.idx);
            sim::note("th%d op%d %s %s lock%d", t, o.idx, o.how == 1 ? "try_lock" : (o.how == 2 ? "timed lock" : "lock"), o.wr ? "W" : "R", o.lock);
            if (o.how == 1) r = L.try_lock(mode);
            else { if (o.how == 2) tmo = Timeout(o.timeout_us); r = L.lock(mode, tmo); }
        }
        int en = errno;
        if (o.wr) { sim::NoSched ns; L.w_waiting--; if (r != 0 && L.writers + L.w_waiting == 0) L.last_writer_end_ns = sim::now_ns(); }
        if (r != 0) {
            sim::NoSched ns;
            sim::note("th%d op%d failed errno %d", t, o.idx, en);
            sim::ev(0xFA11, t, o.idx);
            if (o.how == 1) { sim::probe("trylock_busy"); sim::probe("nontrivial"); continue; }
            bool by_timeout = o.how == 2 && photon::now >= tmo.expiration();
            if (by_timeout) sim::probe("lock_timed_out");
            else if (intr_sent[t] > 0) sim::probe("lock_interrupted");
            else HX_VIOL("result", "%s lock(%s) of th%d failed with errno %d before its deadline and without any interrupt (op %d)",
                         L.q ? "qrwlock" : "rwlock", o.wr ? "W" : "R", t, en, o.idx);
            sim::probe("nontrivial");
            continue;
        }
        { sim::NoSched ns;
          // admission latency (FIFO class, zero-cost CPU, no injected stall): wake-ups cost steps, not simulated time
          if (inf_only && timing_verdicts && sim::perturbed_ns() == pert0) {
              uint64_t now = sim::now_ns();
              // a reader may be kept waiting as long as a writer holds or waits (writer preference / FIFO order)
              uint64_t base = o.wr ? L.free_since_ns : ((L.writers + L.w_waiting) ? now : L.last_writer_end_ns);
              if (base < wait_start) base = wait_start;
              if (now > base + 5000) {
                  if (o.wr) HX_VIOL("admission-delayed", "%s: writer th%d (op %d) was admitted %llu us after the lock had become free (nobody held it) while it was waiting",
                                    L.q ? "qrwlock" : "rwlock", t, o.idx, (unsigned long long)((now - base) / 1000));
                  else HX_VIOL("admission-delayed", "%s: reader th%d (op %d) was admitted %llu us after the last writer had unlocked and no writer was waiting; waiting readers must all be admitted together",
                               L.q ? "qrwlock" : "rwlock", t, o.idx, (unsigned long long)((now - base) / 1000));
              }
              sim::probe("admission_latency_checked");
          }
          if (o.wr) L.writers++; else L.readers++; occupancy_check(L, t, o, "at the start of"); sim::ev(0xAC01, t, o.idx);
          sim::note("th%d op%d acquired (readers=%d writers=%d)", t, o.idx, L.readers, L.writers);
          if (!o.wr && L.readers > 1) sim::probe("readers_shared"); }
        if (o.hold == 1) { thread_yield(); sim::probe("nontrivial"); }
        else if (o.hold == 2) { thread_usleep(o.hold_us); sim::probe("nontrivial"); }
        sim::yield_point();
        { sim::NoSched ns; occupancy_check(L, t, o, "during"); if (o.wr) { L.writers--; if (L.writers + L.w_waiting == 0) L.last_writer_end_ns = sim::now_ns(); } else L.readers--;
          if (L.writers + L.readers == 0) L.free_since_ns = sim::now_ns();
          sim::ev(0xAC02, t, o.idx); sim::note("th%d op%d unlocking", t, o.idx); }
        { phx::Where w(me, "unlock", o.idx); L.unlock(); }
    }
}

void harness_run(uint64_t seed) {
    phx::quiet_logs();
    gen_plan();
    char plan[256];
    snprintf(plan, sizeof plan, "{\"vcpus\":%d,\"threads\":%zu,\"workers\":%d,\"locks\":%zu,\"kinds\":[\"%s\",\"%s\"],\"ops\":%d}",
             W.nvcpu, scripts.size(), n_workers, locks.size(), locks[0].q ? "qrwlock" : "rwlock", locks.size() > 1 ? (locks[1].q ? "qrwlock" : "rwlock") : "-", n_ops);
    sim::extra_json("plan", plan);
    char nb[32]; snprintf(nb, sizeof nb, "%d", n_ops); sim::extra_json("nops", nb);
    // end-of-run probe on vCPU 0: a failed lock must have been a no-op, so the lock is free now
    W.vcpu_end = [](int v) {
        if (v != 0) return;
        while (W.vcpus_down < W.nvcpu - 1) thread_usleep(300);   // everybody else is finished
        for (auto& L : locks) {
            if (L.readers || L.writers) HX_VIOL("exclusion", "occupancy not zero at the end");
            int r = L.q ? L.try_lock(WLOCK) : L.lock(WLOCK, Timeout(0));
            if (r != 0) HX_VIOL("state-leak", "%s: after every holder unlocked and every failed lock() returned, a write lock cannot be taken (errno %d): a failed lock left a trace in the state",
                                L.q ? "qrwlock" : "rwlock", errno);
            L.unlock();
            r = L.q ? L.try_lock(RLOCK) : L.lock(RLOCK, Timeout(0));
            if (r != 0) HX_VIOL("state-leak", "%s: read lock cannot be taken on the idle lock at the end", L.q ? "qrwlock" : "rwlock");
            L.unlock();
        }
    };
    timing_verdicts = sim::cfg.cpu_cost_ns == 0 && sim::cfg.n_stalls == 0;
    sim::start();
    W.deadline_ns = sim::now_ns() + 5000000000ULL;
    W.run();
    sim::finish("ok", "", "rwlock vcpus=%d threads=%zu", W.nvcpu, scripts.size());
}

// C02 — photon::semaphore: token conservation, no lost wake-up, destroy right after wait.
#include "phx.h"
#include <atomic>

using namespace photon;

namespace {

enum { OP_WAIT, OP_PAUSE, OP_SIGNAL, OP_INTR };
struct Op {
    int idx, k;
    uint64_t m = 1;          // demand / signalled count
    int mode = 0;            // 0 wait(inf) 1 wait(timed) 2 wait_interruptible(inf) 3 wait_interruptible(timed)
    uint64_t timeout_us = 0, pause_us = 0;
    int target = 0, eno = 0;
};
enum Role { R_WAITER, R_SIGNALLER, R_INTR, R_CTRL, R_HANDOFF_W, R_HANDOFF_S };

phx::World W;
semaphore* S;
bool in_order, equal_demand;
uint64_t c0, eq_m;
std::vector<std::vector<Op>> scripts;
std::vector<int> role;
std::vector<int> intr_sent;
int n_ops = 0, n_waiters = 0, n_psig = 0, n_osig = 0, n_intr = 0;
std::vector<std::vector<Op>> os_scripts;   // OS-task signallers
volatile uint64_t signalled = 0, taken = 0;
volatile int sig_done = 0, intr_done = 0;
volatile uint64_t last_activity_ns = 0;
struct WState { volatile bool in_inf = false; volatile uint64_t since = 0; volatile uint64_t demand = 0; };
std::vector<WState> wst;

// hand-off sub-workload (destroy right after wait)
int handoff_rounds = 0; bool handoff_os = false; int handoff_delay[16];
semaphore* volatile mailbox = nullptr;
volatile int handoff_done = 0;

const uint64_t T_US[] = {1, 20, 50, 100, 150, 200, 400, 1000, 3000};

void gen_plan() {
    W.nvcpu = 1 + sim::rnd(3);
    in_order = sim::rnd(2); equal_demand = sim::rnd(2); c0 = sim::rnd(4); eq_m = 1 + sim::rnd(3);
    n_waiters = 1 + sim::rnd(5);
    n_psig = sim::rnd(3); n_osig = sim::rnd(3);
    if (n_psig + n_osig == 0) n_psig = 1;
    n_intr = sim::rnd(2) ? 1 + sim::rnd(2) : 0;
    handoff_rounds = sim::rnd(2) == 0 ? 1 + sim::rnd(12) : 0; handoff_os = sim::rnd(2);
    for (auto& d : handoff_delay) d = sim::rnd(8);
    int nth = n_waiters + n_psig + n_intr;
    scripts.resize(nth); role.resize(nth); intr_sent.assign(nth, 0); wst.resize(nth);
    for (int t = 0; t < nth; t++) {
        role[t] = t < n_waiters ? R_WAITER : (t < n_waiters + n_psig ? R_SIGNALLER : R_INTR);
        int n = 1 + sim::rnd(8);
        for (int i = 0; i < n; i++) {
            Op o; o.idx = n_ops++;
            if (role[t] == R_WAITER) {
                if (sim::rnd(6) == 0) { o.k = OP_PAUSE; o.pause_us = sim::rnd(3) ? T_US[sim::rnd(7)] : 0; }
                else { o.k = OP_WAIT; o.m = equal_demand ? eq_m : 1 + sim::rnd(4); o.mode = sim::rnd(4); o.timeout_us = sim::rnd(8) == 0 ? 0 : T_US[sim::rnd(9)]; }
            } else if (role[t] == R_SIGNALLER) {
                if (sim::rnd(3) == 0) { o.k = OP_PAUSE; o.pause_us = sim::rnd(3) ? T_US[sim::rnd(8)] : 0; }
                // a signaller that also takes tokens itself: its wait() does not queue when the count covers it, i.e. it may take
                // the tokens of waiters that its own signal() has just resumed but that have not run yet
                else if (i > 0 && sim::rnd(5) == 0) { o.k = OP_WAIT; o.m = 1 + sim::rnd(3); o.mode = sim::rnd(2) ? 1 : 3; o.timeout_us = T_US[sim::rnd(5)]; }
                else { o.k = OP_SIGNAL; o.m = 1 + sim::rnd(equal_demand ? eq_m * 2 : 5); }
            } else {
                static const int EN[] = {EINTR, ECANCELED, EAGAIN, EIO};
                o.k = OP_INTR; o.target = sim::rnd(n_waiters); o.eno = EN[sim::rnd(4)]; o.pause_us = T_US[sim::rnd(8)];
            }
            scripts[t].push_back(o);
        }
    }
    os_scripts.resize(n_osig);
    for (auto& s : os_scripts) {
        int n = 1 + sim::rnd(6);
        for (int i = 0; i < n; i++) { Op o; o.idx = n_ops++; o.k = OP_SIGNAL; o.m = 1 + sim::rnd(equal_demand ? eq_m * 2 : 5); o.pause_us = T_US[sim::rnd(8)]; s.push_back(o); }
    }
}

void do_wait(int t, const Op& o) {
    phx::ThreadRec& me = W.threads[t];
    Timeout tmo;
    bool timed = o.mode & 1, interruptible = o.mode >= 2;
    if (timed) tmo = Timeout(o.timeout_us);
    { sim::NoSched ns; wst[t].demand = o.m; wst[t].since = sim::now_ns(); wst[t].in_inf = !timed; sim::ev(0x5A17, t, o.idx);
      sim::note("th%d op%d wait%s(m=%llu, %s %llu us) count=%llu", t, o.idx, interruptible ? "_interruptible" : "", (unsigned long long)o.m, timed ? "timeout" : "inf", (unsigned long long)o.timeout_us, (unsigned long long)S->count()); }
    int r;
    {
        phx::Where w(me, timed ? "wait(timed)" : "wait(inf)", o.idx);
        r = interruptible ? S->wait_interruptible(o.m, tmo) : S->wait(o.m, tmo);
    }
    int en = errno;
    sim::NoSched ns;
    wst[t].in_inf = false; last_activity_ns = sim::now_ns();
    sim::note("th%d op%d wait -> %d errno %d count=%llu", t, o.idx, r, r ? en : 0, (unsigned long long)S->count());
    if (r == 0) { taken += o.m; sim::ev(0x5A18, t, o.m); return; }
    sim::probe("nontrivial");
    if (r != -1) HX_VIOL("result", "semaphore wait returned %d (op %d)", r, o.idx);
    if (en == ETIMEDOUT) {
        if (!timed) HX_VIOL("result", "wait without timeout of th%d failed with ETIMEDOUT (op %d)", t, o.idx);
        if (photon::now < tmo.expiration())
            HX_VIOL("result", "wait of th%d reported ETIMEDOUT before its deadline (op %d, now=%llu exp=%llu)", t, o.idx,
                    (unsigned long long)photon::now, (unsigned long long)tmo.expiration());
        sim::probe("wait_timed_out");
    } else {
        if (!interruptible) HX_VIOL("result", "uninterruptible wait() of th%d failed with errno %d (op %d)", t, en, o.idx);
        if (intr_sent[t] == 0) HX_VIOL("result", "wait_interruptible of th%d failed with errno %d but nobody interrupted it (op %d)", t, en, o.idx);
        sim::probe("wait_interrupted");
    }
    sim::ev(0x5A19, t, en);
}

void run_script(int t) {
    phx::ThreadRec& me = W.threads[t];
    for (auto& o : scripts[t]) {
        if (hx::dropped(o.idx)) continue;
        switch (o.k) {
        case OP_PAUSE: { phx::Where w(me, "pause", o.idx); if (o.pause_us) thread_usleep(o.pause_us); else thread_yield(); break; }
        case OP_WAIT: do_wait(t, o); break;
        case OP_SIGNAL: {
            phx::Where w(me, "signal", o.idx);
            { sim::NoSched ns; signalled += o.m; last_activity_ns = sim::now_ns(); sim::ev(0x5160, t, o.m); sim::note("th%d op%d signal(%llu)", t, o.idx, (unsigned long long)o.m); }
            S->signal(o.m);
            break; }
        case OP_INTR: {
            phx::Where w(me, "intr", o.idx);
            thread_usleep(o.pause_us);
            phx::ThreadRec& tg = W.threads[o.target];
            if (!tg.th || !tg.started) break;
            { sim::NoSched ns; intr_sent[o.target]++; last_activity_ns = sim::now_ns(); sim::ev(0x1277, o.target, o.eno); sim::note("th%d op%d interrupt th%d errno %d", t, o.idx, o.target, o.eno); }
            thread_interrupt(tg.th, o.eno);
            break; }
        }
    }
    sim::NoSched ns;
    if (role[t] == R_SIGNALLER) sig_done++;
    if (role[t] == R_INTR) intr_done++;
    last_activity_ns = sim::now_ns();
}

// controller: detects quiescence, evaluates the lost-wake-up oracle, then releases blocked waiters
void controller(int self_id) {
    phx::ThreadRec& me = W.threads[self_id];
    const uint64_t SETTLE = 100 * 1000 * 1000;   // 100 ms of simulated time (> any injected stall)
    for (;;) {
        { phx::Where w(me, "ctrl-poll", -1); thread_usleep(5000); }
        sim::NoSched ns;
        bool waiters_done = true;
        for (int t = 0; t < n_waiters; t++) if (!W.threads[t].done) waiters_done = false;
        if (waiters_done && sig_done == n_psig + n_osig && intr_done == n_intr && (handoff_rounds == 0 || handoff_done == 2)) return;
        if (sig_done < n_psig + n_osig || intr_done < n_intr) continue;
        uint64_t now = sim::now_ns();
        if (now - last_activity_ns < SETTLE) continue;
        bool quiescent = true; uint64_t sum = 0, mx = 0, mn = ~0ULL; int blocked = 0;
        for (int t = 0; t < n_waiters; t++) {
            if (W.threads[t].done) continue;
            if (!wst[t].in_inf || now - wst[t].since < SETTLE) { quiescent = false; break; }
            blocked++; sum += wst[t].demand; if (wst[t].demand > mx) mx = wst[t].demand; if (wst[t].demand < mn) mn = wst[t].demand;
        }
        if (!quiescent || !blocked) continue;
        uint64_t cnt = S->count();
        sim::probe("quiescent_with_blocked_waiters"); sim::probe("nontrivial");
        // lost wake-up oracle (sound forms, see DESIGN.md C02)
        uint64_t bound = in_order ? mx : mn;
        if (cnt >= bound)
            HX_VIOL("lost-wakeup", "quiescent: %d waiter(s) blocked (demands min=%llu max=%llu, %s mode) while count()=%llu covers them",
                    blocked, (unsigned long long)mn, (unsigned long long)mx, in_order ? "in-order" : "out-of-order", (unsigned long long)cnt);
        // release them
        uint64_t add = sum > cnt ? sum - cnt : 1;
        signalled += add; last_activity_ns = now; sim::ev(0x5161, add, blocked);
        sim::note("controller: quiescent, %d blocked, count=%llu, releasing with signal(%llu)", blocked, (unsigned long long)cnt, (unsigned long long)add);
        sim::nosched_end();
        S->signal(add);
        sim::nosched_begin();
    }
}

void handoff_waiter(int t) {
    phx::ThreadRec& me = W.threads[t];
    for (int r = 0; r < handoff_rounds; r++) {
        semaphore* s = new semaphore(0);
        { sim::NoSched ns; mailbox = s; sim::ev(0xAA01, r); }
        // arrive before, while or after the signaller is inside signal()
        switch (handoff_delay[r % 16]) { case 0: break; case 1: thread_yield(); break; case 2: thread_usleep(20); break; case 3: thread_usleep(60); break;
                                          default: for (int k = handoff_delay[r % 16]; k > 3; k--) sim::yield_point(); }
        { phx::Where w(me, "handoff-wait", r); s->wait(1); }
        // wait() has returned: the semaphore may be destroyed immediately
        sim::poison(s, sizeof(*s), "semaphore destroyed right after wait() returned");
        sim::probe("handoff_round"); sim::probe("nontrivial");
        for (int k = sim::rnd(3); k > 0; k--) thread_yield();
    }
    sim::NoSched ns; handoff_done++;
}
void handoff_signaller_loop(bool photon_ctx) {
    for (int r = 0; r < handoff_rounds; r++) {
        semaphore* s = nullptr;
        for (;;) {
            { sim::NoSched ns; s = mailbox; if (s) mailbox = nullptr; }
            if (s) break;
            if (photon_ctx) thread_usleep(50); else sim::sleep_ns(50000);
        }
        s->signal(1);
    }
    sim::NoSched ns; handoff_done++;
}

}  // namespace

void harness_run(uint64_t seed) {
    phx::quiet_logs();
    gen_plan();
    S = new semaphore(c0, in_order);
    for (int t = 0; t < (int)scripts.size(); t++) W.add(sim::rnd(W.nvcpu), [t](int) { run_script(t); });
    int ctrl = W.add(0, [](int id) { controller(id); });
    (void)ctrl;
    if (handoff_rounds) {
        int hv = sim::rnd(W.nvcpu);
        W.add(hv, [](int id) { handoff_waiter(id); });
        if (!handoff_os) W.add(sim::rnd(W.nvcpu), [](int) { handoff_signaller_loop(true); });
    }
    char plan[320];
    snprintf(plan, sizeof plan, "{\"vcpus\":%d,\"waiters\":%d,\"photon_signallers\":%d,\"os_signallers\":%d,\"interrupters\":%d,\"in_order\":%d,\"equal_demand\":%d,\"c0\":%llu,\"handoff_rounds\":%d,\"handoff_os\":%d,\"ops\":%d}",
             W.nvcpu, n_waiters, n_psig, n_osig, n_intr, (int)in_order, (int)equal_demand, (unsigned long long)c0, handoff_rounds, (int)handoff_os, n_ops);
    sim::extra_json("plan", plan);
    char nb[32]; snprintf(nb, sizeof nb, "%d", n_ops); sim::extra_json("nops", nb);
    sim::set_poison_property("use-after-destroy");
    sim::start();
    W.deadline_ns = sim::now_ns() + 20000000000ULL;
    std::vector<std::thread> os;
    for (int i = 0; i < n_osig; i++) os.emplace_back([i] {
        for (auto& o : os_scripts[i]) {
            if (hx::dropped(o.idx)) continue;
            sim::sleep_ns(o.pause_us * 1000);
            { sim::NoSched ns; signalled += o.m; last_activity_ns = sim::now_ns(); sim::ev(0x5162, i, o.m); }
            S->signal(o.m);
            sim::probe("os_thread_signal");
        }
        sim::NoSched ns; sig_done++; last_activity_ns = sim::now_ns();
    });
    if (handoff_rounds && handoff_os) os.emplace_back([] { handoff_signaller_loop(false); });
    W.run();
    for (auto& t : os) t.join();
    uint64_t cnt = S->count();
    if (c0 + signalled != taken + cnt)
        HX_VIOL("conservation", "tokens not conserved: initial %llu + signalled %llu != taken %llu + remaining %llu",
                (unsigned long long)c0, (unsigned long long)signalled, (unsigned long long)taken, (unsigned long long)cnt);
    sim::finish("ok", "", "semaphore vcpus=%d waiters=%d", W.nvcpu, n_waiters);
}

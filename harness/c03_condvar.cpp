// C03 — photon::condition_variable: atomic release-and-wait, no lost notification,
// notify_one/notify_all counts, wait() returns with the lock held.
#include "phx.h"
#include <time.h>

using namespace photon;

namespace {

struct MX : photon::mutex { MX() : mutex(sim::rnd(2) ? 0 : 100) {} thread* own() { return owner.load(); } };

enum { OP_WAIT, OP_PAUSE, OP_NOTIFY, OP_INTR };
struct Op {
    int idx, k;
    uint64_t timeout_us = 0; bool inf = false;      // wait
    int variant = 0; bool all = false;               // notify: 0 {lock;gen++;notify;unlock} 1 {lock;gen++;unlock;notify} 2 {notify only}
    uint64_t pause_us = 0; int target = 0, eno = 0;
};
struct WaitRec { int th, op; uint64_t begin_seq, ret_seq = 0, exp; bool inf; int ret = 1, en = 0; };
struct NotRec { int th, op; bool all; int variant; uint64_t cs_seq = 0, call_seq = 0, done_seq = 0, done_true_us = 0; long woke = 0; };

phx::World W;
bool use_spin;
MX* M; spinlock* SL; condition_variable* CV;
volatile uint64_t gen = 0;
uint64_t g_seq = 0;
std::vector<std::vector<Op>> scripts;
std::vector<int> role;     // 0 waiter 1 notifier 2 interrupter
std::vector<int> intr_sent;
std::vector<WaitRec> waits;
std::vector<NotRec> nots;
int n_ops = 0, n_waiters, n_notifiers, n_intr;
volatile int not_done = 0, intr_done = 0;
volatile uint64_t last_activity_ns = 0;
struct WState { volatile int cur = -1; };    // index into waits of the wait in progress
std::vector<WState> wst;
volatile int holder = -1;                    // harness-side view of who holds L

const uint64_t T_US[] = {1, 20, 50, 100, 150, 200, 400, 1000, 3000};

uint64_t true_now_us() { struct timespec ts; clock_gettime(CLOCK_BOOTTIME, &ts); return ts.tv_sec * 1000000ULL + ts.tv_nsec / 1000; }

void L_lock(int t) {
    if (use_spin) SL->lock();
    else while (M->lock() != 0) { /* interrupted: retry */ }
    sim::NoSched ns;
    if (holder != -1) HX_VIOL("exclusion", "th%d acquired the user lock while th%d holds it", t, holder);
    holder = t;
}
void L_unlock(int t) {
    { sim::NoSched ns; if (holder != t) HX_VIOL("exclusion", "th%d unlocking but holder is th%d", t, holder); holder = -1; }
    if (use_spin) SL->unlock(); else M->unlock();
}

void gen_plan() {
    W.nvcpu = 1 + sim::rnd(3);
    use_spin = sim::rnd(2);
    n_waiters = 1 + sim::rnd(4); n_notifiers = 1 + sim::rnd(3); n_intr = sim::rnd(4) == 0 ? 1 : 0;
    int nth = n_waiters + n_notifiers + n_intr;
    scripts.resize(nth); role.resize(nth); intr_sent.assign(nth, 0); wst.resize(nth);
    for (int t = 0; t < nth; t++) {
        role[t] = t < n_waiters ? 0 : (t < n_waiters + n_notifiers ? 1 : 2);
        int n = 1 + sim::rnd(7);
        for (int i = 0; i < n; i++) {
            Op o; o.idx = n_ops++;
            if (role[t] == 0) {
                if (sim::rnd(6) == 0) { o.k = OP_PAUSE; o.pause_us = sim::rnd(3) ? T_US[sim::rnd(7)] : 0; }
                else { o.k = OP_WAIT; o.inf = sim::rnd(3) == 0; o.timeout_us = T_US[sim::rnd(9)]; }
            } else if (role[t] == 1) {
                if (sim::rnd(3) == 0) { o.k = OP_PAUSE; o.pause_us = sim::rnd(3) ? T_US[sim::rnd(8)] : 0; }
                else { o.k = OP_NOTIFY; o.variant = sim::rnd(3); o.all = sim::rnd(2); }
            } else {
                static const int EN[] = {EINTR, ECANCELED, EAGAIN, EIO};
                o.k = OP_INTR; o.target = sim::rnd(n_waiters); o.eno = EN[sim::rnd(4)]; o.pause_us = T_US[sim::rnd(8)];
            }
            scripts[t].push_back(o);
        }
    }
}

void do_wait(int t, const Op& o) {
    phx::ThreadRec& me = W.threads[t];
    { phx::Where w(me, "lock-before-wait", o.idx); L_lock(t); }
    Timeout tmo;
    if (!o.inf) tmo = Timeout(o.timeout_us);
    int wi;
    {
        sim::NoSched ns;
        WaitRec r; r.th = t; r.op = o.idx; r.begin_seq = ++g_seq; r.exp = tmo.expiration(); r.inf = o.inf;
        waits.push_back(r); wi = (int)waits.size() - 1; wst[t].cur = wi;
        holder = -1;     // wait() releases the lock atomically
        sim::ev(0xC301, t, o.idx);
        sim::note("th%d op%d wait(%s %llu us) begin seq=%llu gen=%llu", t, o.idx, o.inf ? "inf" : "timeout", (unsigned long long)o.timeout_us, (unsigned long long)r.begin_seq, (unsigned long long)gen);
    }
    int r;
    {
        phx::Where w(me, o.inf ? "cv.wait(inf)" : "cv.wait(timed)", o.idx);
        r = use_spin ? CV->wait(SL, tmo) : CV->wait(M, tmo);
    }
    int en = errno;
    {
        sim::NoSched ns;
        waits[wi].ret = r; waits[wi].en = en; waits[wi].ret_seq = ++g_seq; wst[t].cur = -1;
        last_activity_ns = sim::now_ns();
        sim::note("th%d op%d wait -> %d errno %d seq=%llu", t, o.idx, r, r ? en : 0, (unsigned long long)g_seq);
        // (c) wait() returns with the lock held again
        bool held = use_spin ? SL->locked() : (M->own() == CURRENT);
        if (!held) HX_VIOL("lock-not-held", "cv.wait() of th%d returned %d without holding the lock again (op %d)", t, r, o.idx);
        if (holder != -1) HX_VIOL("lock-not-held", "cv.wait() of th%d returned while th%d holds the user lock (op %d)", t, holder, o.idx);
        holder = t;
        if (r != 0) {
            sim::probe("nontrivial");
            if (r != -1) HX_VIOL("result", "cv.wait returned %d", r);
            if (en == ETIMEDOUT) {
                if (o.inf) HX_VIOL("result", "cv.wait without timeout returned ETIMEDOUT (th%d op %d)", t, o.idx);
                if (photon::now < tmo.expiration())
                    HX_VIOL("result", "cv.wait of th%d returned ETIMEDOUT before its deadline (op %d now=%llu exp=%llu)", t, o.idx, (unsigned long long)photon::now, (unsigned long long)tmo.expiration());
                sim::probe("wait_timed_out");
            } else {
                if (intr_sent[t] == 0) HX_VIOL("result", "cv.wait of th%d failed with errno %d without any interrupt (op %d)", t, en, o.idx);
                sim::probe("wait_interrupted");
            }
        } else sim::probe("wait_notified");
        sim::ev(0xC302, t, r ? en : 0);
    }
    { phx::Where w(me, "unlock-after-wait", o.idx); L_unlock(t); }
}

void do_notify(int t, int opidx, int variant, bool all) {
    phx::ThreadRec& me = W.threads[t];
    NotRec n; n.th = t; n.op = opidx; n.all = all; n.variant = variant;
    if (variant != 2) {
        { phx::Where w(me, "notifier-lock", opidx); L_lock(t); }
        sim::NoSched ns; n.cs_seq = ++g_seq; gen = gen + 1;
    }
    if (variant == 1) { phx::Where w(me, "notifier-unlock", opidx); L_unlock(t); }
    { sim::NoSched ns; n.call_seq = ++g_seq; }
    {
        phx::Where w(me, all ? "notify_all" : "notify_one", opidx);
        if (all) n.woke = CV->notify_all(); else n.woke = CV->notify_one() ? 1 : 0;
    }
    {
        sim::NoSched ns; n.done_seq = ++g_seq; n.done_true_us = true_now_us(); last_activity_ns = sim::now_ns();
        nots.push_back(n);
        sim::ev(0xC303, t, n.woke);
        sim::note("th%d op%d %s variant %d -> %ld (cs_seq=%llu call=%llu done=%llu)", t, opidx, all ? "notify_all" : "notify_one", variant, n.woke,
                  (unsigned long long)n.cs_seq, (unsigned long long)n.call_seq, (unsigned long long)n.done_seq);
    }
    if (variant == 0) { phx::Where w(me, "notifier-unlock", opidx); L_unlock(t); }
}

void run_script(int t) {
    phx::ThreadRec& me = W.threads[t];
    for (auto& o : scripts[t]) {
        if (hx::dropped(o.idx)) continue;
        switch (o.k) {
        case OP_PAUSE: { phx::Where w(me, "pause", o.idx); if (o.pause_us) thread_usleep(o.pause_us); else thread_yield(); break; }
        case OP_WAIT: do_wait(t, o); break;
        case OP_NOTIFY: do_notify(t, o.idx, o.variant, o.all); break;
        case OP_INTR: {
            phx::Where w(me, "intr", o.idx);
            thread_usleep(o.pause_us);
            phx::ThreadRec& tg = W.threads[o.target];
            if (!tg.th || !tg.started) break;
            { sim::NoSched ns; intr_sent[o.target]++; last_activity_ns = sim::now_ns(); sim::ev(0x1277, o.target, o.eno); sim::note("th%d interrupts th%d errno %d", t, o.target, o.eno); }
            thread_interrupt(tg.th, o.eno);
            break; }
        }
    }
    sim::NoSched ns;
    if (role[t] == 1) not_done++;
    if (role[t] == 2) intr_done++;
    last_activity_ns = sim::now_ns();
}

void controller(int self_id) {
    phx::ThreadRec& me = W.threads[self_id];
    const uint64_t SETTLE = 100 * 1000 * 1000;
    for (;;) {
        { phx::Where w(me, "ctrl-poll", -1); thread_usleep(5000); }
        bool release = false;
        {
            sim::NoSched ns;
            bool waiters_done = true;
            for (int t = 0; t < n_waiters; t++) if (!W.threads[t].done) waiters_done = false;
            if (waiters_done && not_done == n_notifiers && intr_done == n_intr) return;
            if (not_done < n_notifiers || intr_done < n_intr) continue;
            uint64_t now = sim::now_ns();
            if (now - last_activity_ns < SETTLE) continue;
            bool quiescent = true; int blocked = 0;
            for (int t = 0; t < n_waiters; t++) {
                if (W.threads[t].done) continue;
                int wi = wst[t].cur;
                if (wi < 0 || !waits[wi].inf) { quiescent = false; break; }
                blocked++;
            }
            if (!quiescent || !blocked) continue;
            sim::probe("quiescent_with_blocked_waiters"); sim::probe("nontrivial");
            // (e)/(b''): a waiter that is still blocked was in the queue during every notification whose
            // critical section began after the waiter's wait began
            for (int t = 0; t < n_waiters; t++) {
                if (W.threads[t].done) continue;
                WaitRec& w = waits[wst[t].cur];
                for (auto& n : nots) {
                    if (n.variant == 2 || n.cs_seq < w.begin_seq) continue;
                    if (n.all)
                        HX_VIOL("lost-notification", "th%d (wait began at seq %llu holding the lock) is still blocked although th%d's notify_all ran in a critical section entered later (seq %llu) and woke %ld",
                                t, (unsigned long long)w.begin_seq, n.th, (unsigned long long)n.cs_seq, n.woke);
                    if (!n.all && n.woke == 0)
                        HX_VIOL("lost-notification", "notify_one of th%d (critical section at seq %llu) woke nobody although th%d was waiting since seq %llu and is still blocked",
                                n.th, (unsigned long long)n.cs_seq, t, (unsigned long long)w.begin_seq);
                }
            }
            release = true;
        }
        if (release) do_notify(self_id, -1, 0, true);
    }
}

}  // namespace

void harness_run(uint64_t seed) {
    phx::quiet_logs();
    gen_plan();
    M = new MX(); SL = new spinlock(); CV = new condition_variable();
    for (int t = 0; t < (int)scripts.size(); t++) W.add(sim::rnd(W.nvcpu), [t](int) { run_script(t); });
    W.add(0, [](int id) { controller(id); });
    char plan[256];
    snprintf(plan, sizeof plan, "{\"vcpus\":%d,\"lock\":\"%s\",\"waiters\":%d,\"notifiers\":%d,\"interrupters\":%d,\"ops\":%d}",
             W.nvcpu, use_spin ? "spinlock" : "mutex", n_waiters, n_notifiers, n_intr, n_ops);
    sim::extra_json("plan", plan);
    char nb[32]; snprintf(nb, sizeof nb, "%d", n_ops); sim::extra_json("nops", nb);
    sim::start();
    W.deadline_ns = sim::now_ns() + 20000000000ULL;
    W.run();
    // history oracles
    long woke = 0, returned0 = 0;
    for (auto& n : nots) woke += n.woke;
    for (auto& w : waits) if (w.ret == 0) returned0++;
    if (n_intr == 0) {
        if (woke != returned0)
            HX_VIOL("notify-count", "notify_one/notify_all reported %ld wake-ups in total but %ld waits returned 0", woke, returned0);
        // (a) every wait eligible for a completed notify_all that finished before the wait's deadline returns 0
        for (auto& w : waits) {
            if (w.ret == 0) continue;
            for (auto& n : nots) {
                if (!n.all || n.variant == 2) continue;
                if (n.cs_seq > w.begin_seq && n.call_seq < w.ret_seq && n.done_true_us < w.exp)
                    HX_VIOL("lost-notification", "wait of th%d (op %d, began seq %llu, deadline %llu) returned errno %d although th%d's notify_all (critical section seq %llu) completed at %llu, before the deadline",
                            w.th, w.op, (unsigned long long)w.begin_seq, (unsigned long long)w.exp, w.en, n.th, (unsigned long long)n.cs_seq, (unsigned long long)n.done_true_us);
            }
        }
    } else if (returned0 > woke)
        HX_VIOL("notify-count", "%ld waits returned 0 but only %ld wake-ups were reported by notify calls", returned0, woke);
    sim::finish("ok", "", "condvar vcpus=%d waiters=%d notifiers=%d waits=%zu notifies=%zu", W.nvcpu, n_waiters, n_notifiers, waits.size(), nots.size());
}

// C16 — alignment adaptor and linear / stripe composites over a simulated disk behave like one plain file;
// every request the alignment adaptor issues to the underlay is aligned (offset, length, memory when requested).
#include "phx.h"
#include "simfs.h"
#include <photon/fs/aligned-file.h>
#include <photon/fs/xfile.h>
#include <string>
#include <algorithm>

using namespace photon;
using namespace photon::fs;

namespace {

phx::World W;
simfs::FS* FSYS;
std::string ref;                // reference model: a plain byte array of the logical file
std::string known;              // 1 where the logical byte is known (0 after a failed/short write touched it)
bool fixed_size = false;
int kind;                       // 0 aligned, 1 fixed linear, 2 variable linear, 3 stripe, 4 aligned over stripe
uint32_t alignment = 4096; bool align_memory = false;
IFile* F;                       // the adaptor under test
bool fault_class = false;
uint64_t n_faults = 0;
bool monitor_alignment = false;
char desc[200];

std::string rnd_bytes(size_t n) { std::string s(n, 0); for (auto& c : s) c = (char)sim::rnd(256); return s; }

void build() {
    kind = sim::rnd(5);
    fault_class = sim::rnd(3) == 0;
    FSYS = new simfs::FS;
    std::vector<IFile*> subs;
    if (kind == 0) {
        static const uint32_t AL[] = {512, 1024, 4096, 16384, 65536};
        alignment = AL[sim::rnd(5)]; align_memory = sim::rnd(2);
        size_t size = sim::rnd(4) == 0 ? alignment * (1 + sim::rnd(4)) : 1 + sim::rnd(5 * alignment);
        ref = rnd_bytes(size);
        auto f = FSYS->open("/u0", O_CREAT | O_RDWR); f->pwrite(ref.data(), ref.size(), 0);
        F = new_aligned_file_adaptor(f, alignment, align_memory, true);
        monitor_alignment = true; fixed_size = false;
        snprintf(desc, sizeof desc, "aligned(alignment %u, align_memory %d) over a %zu-byte file", alignment, (int)align_memory, size);
    } else {
        int n = 2 + sim::rnd(4);
        uint64_t unit = 0; std::vector<uint64_t> sizes;
        if (kind == 1) { unit = sim::rnd(3) == 0 ? 1 + sim::rnd(9000) : 512 * (1 + sim::rnd(16)); sizes.assign(n, unit); }
        else if (kind == 2) { for (int i = 0; i < n; i++) sizes.push_back(1 + sim::rnd(9000)); }
        else { unit = 512ULL << sim::rnd(5); uint64_t per = unit * (1 + sim::rnd(6)); sizes.assign(n, per); }
        std::vector<std::string> content(n);
        for (int i = 0; i < n; i++) {
            content[i] = rnd_bytes(sizes[i]);
            char p[16]; snprintf(p, sizeof p, "/u%d", i);
            auto f = FSYS->open(p, O_CREAT | O_RDWR); f->pwrite(content[i].data(), content[i].size(), 0);
            subs.push_back(f);
        }
        fixed_size = true;
        if (kind == 1) { F = new_fixed_size_linear_file(unit, &subs[0], n, true); for (auto& c : content) ref += c; snprintf(desc, sizeof desc, "fixed-size linear file: %d sub-files of %llu bytes", n, (unsigned long long)unit); }
        else if (kind == 2) { F = new_linear_file(&subs[0], n, true); for (auto& c : content) ref += c; snprintf(desc, sizeof desc, "linear file: %d sub-files of distinct sizes, %zu bytes", n, ref.size() + 0); }
        else {
            F = new_stripe_file(unit, &subs[0], n, true);
            uint64_t total = sizes[0] * n; ref.resize(total);
            for (uint64_t o = 0; o < total; o++) { uint64_t s = o / unit; ref[o] = content[s % n][(s / n) * unit + o % unit]; }
            snprintf(desc, sizeof desc, "stripe file: %d sub-files, stripe %llu, %llu bytes", n, (unsigned long long)unit, (unsigned long long)total);
            if (kind == 4) {
                static const uint32_t AL[] = {512, 1024, 4096};
                alignment = AL[sim::rnd(3)]; align_memory = false;
                F = new_aligned_file_adaptor(F, alignment, false, true);
                size_t l = strlen(desc); snprintf(desc + l, sizeof desc - l, ", under an alignment adaptor (%u)", alignment);
            }
        }
    }
    if (!F) sim::finish("error", "harness", "adaptor construction failed: %s", desc);
    known.assign(ref.size(), 1);
    FSYS->monitor = [](const simfs::Req& r) {
        if (!monitor_alignment || (r.kind != simfs::OP_PREAD && r.kind != simfs::OP_PWRITE)) return;
        if (r.off % alignment || r.len % alignment)
            HX_VIOL("unaligned-request", "alignment adaptor (%u) issued %s(offset %llu, length %llu) to the underlying file", alignment, r.kind == simfs::OP_PREAD ? "pread" : "pwrite",
                    (unsigned long long)r.off, (unsigned long long)r.len);
        if (align_memory && ((uintptr_t)r.buf % alignment))
            HX_VIOL("unaligned-request", "alignment adaptor (%u, align_memory) passed the unaligned buffer %p to the underlying file", alignment, r.buf);
    };
    if (fault_class) FSYS->policy = [](const simfs::Req& r) {
        simfs::Action a;
        if (r.kind == simfs::OP_PREAD || r.kind == simfs::OP_PWRITE) {
            uint64_t x = sim::frnd(100);
            if (x < 4) { a.err = EIO; n_faults++; sim::fault_fired(r.kind == simfs::OP_PREAD ? "underlay_read_EIO" : "underlay_write_EIO"); }
            else if (x < 12 && r.len > 1) { a.limit = 1 + sim::frnd(r.len - 1); n_faults++; sim::fault_fired(r.kind == simfs::OP_PREAD ? "underlay_short_read" : "underlay_short_write"); }
        }
        return a;
    };
}

void make_iov(std::vector<struct iovec>& iov, char* base, size_t count) {
    size_t off = 0; int pieces = 1 + sim::rnd(5);
    for (int i = 0; i < pieces && off < count; i++) {
        size_t n = i == pieces - 1 ? count - off : sim::rnd(count - off + 1);
        if (sim::rnd(5) == 0) iov.push_back({base + off, 0});       // zero-length element
        iov.push_back({base + off, n}); off += n;
    }
    if (off < count) iov.push_back({base + off, count - off});
}

void work(int) {
    build();
    int nops = 5 + sim::rnd(40);
    std::string buf(300000, 0);
    for (int i = 0; i < nops; i++) {
        if (hx::dropped(i)) continue;
        uint64_t size = ref.size();
        uint64_t unit = std::max<uint64_t>(alignment, 512);
        uint64_t off = sim::rnd(3) == 0 ? (sim::rnd(size / unit + 1) * unit) % size : sim::rnd(size);
        if (sim::rnd(6) == 0 && off > 0) off = off - (off % unit) + sim::rnd(3) - 1;      // around a boundary
        if (off >= size) off = size - 1;
        uint64_t len = sim::rnd(4) == 0 ? sim::rnd(3 * unit) : sim::rnd(2) ? sim::rnd(64) : sim::rnd(20000);
        if (sim::rnd(5) == 0) len = (size - off) + sim::rnd(100);                             // runs past the end
        if (len > buf.size()) len = buf.size();
        bool wr = sim::rnd(2), vec = sim::rnd(3) == 0 && kind != 0 && kind != 4;               // the alignment adaptor supports pread/pwrite only
        if (fault_class && wr && !fixed_size && off + len > size) len = size - off;     // with injected faults the file is not extended (its size would become undetermined)
        uint64_t expect = std::min<uint64_t>(len, size - off);
        if (wr && !fixed_size) expect = len;
        std::vector<struct iovec> iov;
        ssize_t rc;
        sim::note("op %d: %s%s(offset %llu, length %llu) size %llu", i, wr ? "pwrite" : "pread", vec ? "v" : "", (unsigned long long)off, (unsigned long long)len, (unsigned long long)size);
        if (wr) {
            std::string data = rnd_bytes(len);
            memcpy(&buf[0], data.data(), len);
            if (vec) { make_iov(iov, &buf[0], len); rc = F->pwritev(iov.data(), iov.size(), off); } else rc = F->pwrite(buf.data(), len, off);
            if (rc > (ssize_t)len) HX_VIOL("result", "%s: pwrite(offset %llu, length %llu) returned %zd", desc, (unsigned long long)off, (unsigned long long)len, rc);
            if (!fault_class || n_faults == 0) {
                if (rc != (ssize_t)expect) HX_VIOL("write-count", "%s: pwrite%s(offset %llu, length %llu) returned %zd, a plain file of %llu bytes gives %llu", desc, vec ? "v" : "",
                                                   (unsigned long long)off, (unsigned long long)len, rc, (unsigned long long)size, (unsigned long long)expect);
            }
            uint64_t touched = std::min<uint64_t>(len, fixed_size ? size - off : len);
            if (off + touched > ref.size()) { ref.resize(off + touched, 0); known.resize(ref.size(), 1); }
            if (rc == (ssize_t)touched) { ref.replace(off, touched, data, 0, touched); std::fill(known.begin() + off, known.begin() + off + touched, 1); }
            else {
                // failed or short under injected faults: the first rc bytes are as written, the rest of the target range is undetermined
                if (!fault_class) HX_VIOL("write-count", "%s: short pwrite (%zd of %llu) without any injected fault", desc, rc, (unsigned long long)touched);
                size_t good = rc > 0 ? rc : 0;
                ref.replace(off, good, data, 0, good);
                std::fill(known.begin() + off, known.begin() + off + good, 1);
                std::fill(known.begin() + off + good, known.begin() + off + touched, 0);
                // an RMW may also have rewritten the rest of its first/last block with what it read: those bytes keep their value
            }
        } else {
            memset(&buf[0], 0xA5, len);
            if (vec) { make_iov(iov, &buf[0], len); rc = F->preadv(iov.data(), iov.size(), off); } else rc = F->pread(&buf[0], len, off);
            if (rc > (ssize_t)expect) HX_VIOL("read-count", "%s: pread(offset %llu, length %llu) returned %zd but only %llu bytes exist", desc, (unsigned long long)off, (unsigned long long)len, rc, (unsigned long long)expect);
            if (!fault_class && rc != (ssize_t)expect)
                HX_VIOL("read-count", "%s: pread%s(offset %llu, length %llu) returned %zd, a plain file of %llu bytes gives %llu", desc, vec ? "v" : "", (unsigned long long)off,
                        (unsigned long long)len, rc, (unsigned long long)size, (unsigned long long)expect);
            for (ssize_t k = 0; k < rc; k++)
                if (known[off + k] && buf[k] != ref[off + k])
                    HX_VIOL("read-data", "%s: pread%s(offset %llu, length %llu) returned a wrong byte at file offset %llu%s", desc, vec ? "v" : "", (unsigned long long)off,
                            (unsigned long long)len, (unsigned long long)(off + k), fault_class ? " (underlay faults were injected, but returned data must still be right)" : "");
            for (size_t k = std::max<ssize_t>(rc, 0); k < len; k++)
                if ((unsigned char)buf[k] != 0xA5 && !fault_class) HX_VIOL("read-overrun", "%s: pread wrote to the caller's buffer beyond the %zd bytes it returned", desc, rc);
        }
    }
    // final content and size equal the reference (fault-free class)
    struct stat st;
    if (F->fstat(&st) == 0 && !fault_class && (uint64_t)st.st_size != ref.size())
        HX_VIOL("final-size", "%s: size is %llu at the end, the reference file has %zu", desc, (unsigned long long)st.st_size, ref.size());
    if (!fault_class) {
        std::string all(ref.size(), 0);
        size_t got = 0;
        while (got < all.size()) { ssize_t r = F->pread(&all[got], std::min<size_t>(all.size() - got, 65536), got); if (r <= 0) break; got += r; }
        if (got != ref.size() || all != ref) HX_VIOL("final-content", "%s: final content differs from the reference (%zu of %zu bytes read back)", desc, got, ref.size());
    }
    sim::probe(fault_class ? "fault_class_run" : "fault_free_run");
}

}  // namespace

void harness_run(uint64_t seed) {
    phx::quiet_logs();
    W.nvcpu = 1;
    W.add(0, [](int id) { work(id); });
    sim::extra_json("nops", "45");
    sim::cfg.max_steps = 40000000;
    sim::start();
    W.deadline_ns = sim::now_ns() + 600000000000ULL;
    W.run();
    char plan[300]; snprintf(plan, sizeof plan, "\"%s%s\"", desc, fault_class ? " [underlay faults]" : "");
    sim::extra_json("plan", plan);
    sim::probe("nontrivial");
    sim::finish("ok", "", "%s", desc);
}

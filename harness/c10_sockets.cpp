// C10 — photon socket streams over the epoll engines: ordered, complete, exactly-once bytes; full-count read/write,
// partial recv/send; timeouts and readiness events reach the right waiter.            (links the SIMKERNEL)
//
// Real code: net/kernel_socket.cpp, net/basic_socket.{h,cpp}, io/epoll.cpp or io/epoll-ng.cpp, common/iovector, the photon
// scheduler and timers.  Simulated: the kernel (sim/kernel.cpp): stream sockets with small send buffers, per-segment latency,
// partial transfers, FIN/RST, eventfd and epoll (level, one-shot, edge, nested).
#include "phx.h"
#include "kernel.h"
#include <photon/net/socket.h>
#include <photon/io/fd-events.h>
#include <photon/photon.h>
#include <string>
#include <algorithm>

using namespace photon;
using namespace photon::net;

namespace {

phx::World W;

enum { ROLE_W, ROLE_R };
enum { O_WRITE, O_WRITEV, O_SEND, O_SENDV, O_READ, O_READV, O_RECV, O_RECVV, O_SLEEP, O_SHUTDOWN, O_RECV_AT_LEAST, O_SKIP };
struct Op { int conn, dir, role, kind; uint64_t n; int nseg; uint64_t us; int how; };
std::vector<Op> plan;

struct EP {
    ISocketStream* s = nullptr; int fd = -1; uint64_t tmo = -1ULL;
    int users = 2; bool shut_rd = false, shut_wr = false, released = false;
    uint64_t final_tx = 0, final_rx = 0;
    int in_call = 0;            // threads of this endpoint currently inside a stream call
};
struct Dir { uint32_t salt; uint64_t w_off = 0, r_off = 0; bool r_eof = false; };
struct Conn { EP ep[2]; Dir dir[2]; bool reset = false; uint64_t reset_at_us = 0; volatile bool accepted = false, connected = false; };
std::vector<Conn> conns;

int engine_kind, sock_kind, nvcpu, nconn;       // engine: 0 epoll, 1 epoll-ng; sock: 0 tcp, 1 uds, 2 edge-triggered tcp
int vc_client = 0, vc_server = 0;
bool timing_verdicts = false;
uint64_t slack_us = 0;
char desc[300];
volatile bool setup_failed = false;

inline uint8_t content(uint32_t salt, uint64_t off) {
    uint64_t x = (off >> 3) * 0x9E3779B97F4A7C15ULL + (uint64_t)salt * 0xD1B54A32D192ED03ULL;
    x ^= x >> 29; x *= 0xBF58476D1CE4E5B9ULL; x ^= x >> 32;
    return 1 + ((x >> ((off & 7) * 8)) & 0xff) % 255;
}

static const size_t GUARD = 8;
struct Buf {
    std::string mem; std::vector<struct iovec> iov; std::vector<size_t> seg_off; size_t len = 0;
    void make(size_t n, int nseg, bool zero_len_elems) {
        len = n;
        std::vector<size_t> cuts;
        for (int i = 1; i < nseg; i++) cuts.push_back(n ? sim::rnd(n + 1) : 0);
        std::sort(cuts.begin(), cuts.end()); cuts.push_back(n);
        if (!zero_len_elems) { std::vector<size_t> c2; size_t prev = 0; for (size_t c : cuts) if (c != prev || c2.empty()) { c2.push_back(c); prev = c; } if (c2.back() != n) c2.push_back(n); cuts = c2; }
        mem.assign(n + (cuts.size() + 1) * GUARD, (char)0xEE);
        size_t prev = 0, pos = GUARD;
        for (size_t c : cuts) { size_t k = c - prev; iov.push_back({&mem[0] + pos, k}); seg_off.push_back(prev); memset(&mem[0] + pos, 0, k); pos += k + GUARD; prev = c; }
    }
    uint8_t& at(size_t k) {
        for (size_t i = iov.size(); i-- > 0;) if (k >= seg_off[i] && k < seg_off[i] + iov[i].iov_len) return ((uint8_t*)iov[i].iov_base)[k - seg_off[i]];
        static uint8_t z; return z;
    }
    bool guards_ok() const {
        size_t pos = 0;
        for (size_t i = 0; i <= iov.size(); i++) { for (size_t g = 0; g < GUARD; g++) if ((uint8_t)mem[pos + g] != 0xEE) return false; if (i < iov.size()) pos += GUARD + iov[i].iov_len; }
        return true;
    }
};

uint64_t tx_total(EP& e) { return e.released ? e.final_tx : simk::tx_accepted(e.fd); }

void release(EP& e) {
    sim::NoSched ns;
    if (--e.users > 0) return;
    e.final_tx = simk::tx_accepted(e.fd); e.final_rx = simk::rx_consumed(e.fd);
    e.released = true;
}
void release_and_close(EP& e) {
    bool last;
    { sim::NoSched ns; last = e.users == 1; }
    release(e);
    if (last) { delete e.s; e.s = nullptr; }
}

const char* kind_name(int k) { static const char* n[] = {"write", "writev", "send", "send(iovec)", "read", "readv", "recv", "recv(iovec)", "sleep", "shutdown", "recv_at_least", "skip_read"}; return n[k]; }

bool timed_out_legit(EP& me, uint64_t now0, uint64_t sim0, const Op& o, int ci, const char* what) {
    if (me.tmo == -1ULL)
        HX_VIOL("errno", "%s: conn %d: %s(%llu) failed with ETIMEDOUT although the stream has no timeout", desc, ci, what, (unsigned long long)o.n);
    if (photon::now - now0 < me.tmo)
        HX_VIOL("early-timeout", "%s: conn %d: %s(%llu) failed with ETIMEDOUT after only %llu us of photon::now; the stream timeout is %llu us", desc, ci, what,
                (unsigned long long)o.n, (unsigned long long)(photon::now - now0), (unsigned long long)me.tmo);
    return true;
}

void check_not_hung(EP& me, uint64_t sim0, uint64_t pert0, const Op& o, int ci, const char* what, ssize_t rc) {
    if (me.tmo == -1ULL || !timing_verdicts || sim::perturbed_ns() != pert0) return;
    uint64_t el = (sim::now_ns() - sim0) / 1000;
    if (el > me.tmo + slack_us)
        HX_VIOL("past-timeout", "%s: conn %d: %s(%llu) = %zd returned %llu us after it was called; the stream timeout is %llu us (slack %llu us)", desc, ci, what,
                (unsigned long long)o.n, rc, (unsigned long long)el, (unsigned long long)me.tmo, (unsigned long long)slack_us);
}

void writer(int id, int ci, int d) {
    auto& rec = W.threads[id];
    Conn& C = conns[ci]; EP& me = C.ep[d]; EP& peer = C.ep[1 - d]; Dir& D = C.dir[d];
    { phx::Where w(rec, "wait-connection", ci); while (!(d == 0 ? C.connected : C.accepted) && !setup_failed) photon::thread_usleep(50); }
    if (setup_failed) return;
    bool dead = false;
    for (size_t i = 0; i < plan.size() && !dead; i++) {
        const Op& o = plan[i];
        if (o.conn != ci || o.dir != d || o.role != ROLE_W || hx::dropped(i)) continue;
        if (o.kind == O_SLEEP) { phx::Where w(rec, "sleep", i); photon::thread_usleep(o.us); continue; }
        bool vec = o.kind == O_WRITEV || o.kind == O_SENDV, full = o.kind == O_WRITE || o.kind == O_WRITEV;
        Buf b; b.make(o.n, vec ? o.nseg : 1, vec);
        for (size_t k = 0; k < o.n; k++) b.at(k) = content(D.salt, D.w_off + k);
        uint64_t acc0 = simk::tx_accepted(me.fd), now0 = photon::now, sim0 = sim::now_ns(), pert0 = sim::perturbed_ns();
        ssize_t rc; int e;
        {
            phx::Where w(rec, kind_name(o.kind), i);
            if (me.in_call) sim::probe("both_directions_of_one_stream_in_flight");
            me.in_call++;
            errno = 0;
            switch (o.kind) {
                case O_WRITE: rc = me.s->write(b.iov[0].iov_base, o.n); break;
                case O_WRITEV: rc = me.s->writev(b.iov.data(), b.iov.size()); break;
                case O_SEND: rc = me.s->send(b.iov[0].iov_base, o.n); break;
                default: rc = me.s->send(b.iov.data(), (int)b.iov.size()); break;
            }
            e = errno;
            me.in_call--;
        }
        uint64_t delta = simk::tx_accepted(me.fd) - acc0;
        bool broken = C.reset || me.shut_wr || peer.shut_rd || peer.released;
        sim::note("op %zu conn %d dir %d: %s(%llu bytes, %zu iovec) = %zd errno %d; kernel accepted %llu; stream offset %llu%s", i, ci, d, kind_name(o.kind), (unsigned long long)o.n,
                  b.iov.size(), rc, rc < 0 ? e : 0, (unsigned long long)delta, (unsigned long long)D.w_off, broken ? " [connection broken/shut]" : "");
        check_not_hung(me, sim0, pert0, o, ci, kind_name(o.kind), rc);
        if (rc >= 0) {
            if ((uint64_t)rc != delta)
                HX_VIOL("write-count", "%s: conn %d: %s(%llu) returned %zd but the socket accepted %llu bytes from it", desc, ci, kind_name(o.kind), (unsigned long long)o.n, rc, (unsigned long long)delta);
            if ((uint64_t)rc > o.n) HX_VIOL("write-count", "%s: conn %d: %s(%llu) returned %zd", desc, ci, kind_name(o.kind), (unsigned long long)o.n, rc);
            if (full && (uint64_t)rc != o.n && !broken)
                HX_VIOL("short-write", "%s: conn %d: %s(%llu) returned %zd although the peer has not closed or shut down and no error or timeout occurred", desc, ci, kind_name(o.kind), (unsigned long long)o.n, rc);
            if (!full && rc == 0 && o.n > 0 && !broken)
                HX_VIOL("short-write", "%s: conn %d: %s(%llu) returned 0", desc, ci, kind_name(o.kind), (unsigned long long)o.n);
            D.w_off += rc;
            if (rc > 0) sim::probe(full ? "write_full" : "send_partial_or_full");
        } else {
            D.w_off += delta;
            if (e == ETIMEDOUT) { timed_out_legit(me, now0, sim0, o, ci, kind_name(o.kind)); sim::probe("write_timeout"); if (delta) sim::probe("write_timeout_after_partial_progress"); }
            else if ((e == EPIPE || e == ECONNRESET) && broken) { dead = true; sim::probe("write_on_broken_connection"); }
            else HX_VIOL("errno", "%s: conn %d: %s(%llu) failed with errno %d (%s); the stream timeout is %lld us, the connection is %s", desc, ci, kind_name(o.kind), (unsigned long long)o.n, e,
                         strerror(e), (long long)me.tmo, broken ? "broken or shut down" : "intact");
        }
    }
    if (!me.shut_wr) { phx::Where w(rec, "shutdown(WR)", -1); me.shut_wr = true; me.s->shutdown(ShutdownHow::Write); }
    { phx::Where w(rec, "close", -1); release_and_close(me); }
}

// EOF is legitimate when our read side was shut down, the connection was reset, or the peer shut down / closed its write side
bool eof_ok(Conn& C, EP& me, EP& peer) { return me.shut_rd || C.reset || peer.shut_wr || peer.released; }

void at_eof(int ci, int d, Conn& C, EP& me, EP& peer, Dir& D) {
    D.r_eof = true;
    // graceful end: everything the peer's socket accepted must have arrived, exactly once
    if (!me.shut_rd && !C.reset && !simk::was_reset(me.fd)) {
        uint64_t sent = tx_total(peer);
        if (D.r_off != sent)
            HX_VIOL("incomplete", "%s: conn %d dir %d: end of stream after %llu bytes, but the peer's socket had accepted %llu bytes before its FIN", desc, ci, d, (unsigned long long)D.r_off, (unsigned long long)sent);
        sim::probe("clean_eof_complete");
    }
}

void reader(int id, int ci, int d) {
    auto& rec = W.threads[id];
    Conn& C = conns[ci]; EP& me = C.ep[1 - d]; EP& peer = C.ep[d]; Dir& D = C.dir[d];
    { phx::Where w(rec, "wait-connection", ci); while (!(d == 1 ? C.connected : C.accepted) && !setup_failed) photon::thread_usleep(50); }
    if (setup_failed) return;
    bool dead = false;
    auto do_read = [&](const Op& o, size_t i) {
        bool vec = o.kind == O_READV || o.kind == O_RECVV, full = o.kind == O_READ || o.kind == O_READV;
        if (o.kind == O_SKIP) {
            // skip_read(n): reads and drops exactly n bytes; false when the stream ends or fails before that
            uint64_t c0 = simk::rx_consumed(me.fd), now0 = photon::now, sim0 = sim::now_ns(), pert0 = sim::perturbed_ns();
            bool ok; int e;
            { phx::Where w(rec, "skip_read", i); me.in_call++; errno = 0; ok = me.s->skip_read(o.n); e = errno; me.in_call--; }
            uint64_t delta = simk::rx_consumed(me.fd) - c0;
            sim::note("op %zu conn %d dir %d: skip_read(%llu) = %d errno %d; kernel handed out %llu; stream offset %llu", i, ci, d, (unsigned long long)o.n, (int)ok, ok ? 0 : e, (unsigned long long)delta, (unsigned long long)D.r_off);
            (void)sim0; (void)pert0;       // skip_read() is a sequence of read() calls: the stream timeout bounds each of them, not the whole
            if (delta > o.n) HX_VIOL("read-count", "%s: conn %d: skip_read(%llu) took %llu bytes out of the socket", desc, ci, (unsigned long long)o.n, (unsigned long long)delta);
            if (ok && delta != o.n) HX_VIOL("read-count", "%s: conn %d: skip_read(%llu) reported success but dropped %llu bytes", desc, ci, (unsigned long long)o.n, (unsigned long long)delta);
            D.r_off += delta;
            if (!ok) {
                if (e == ETIMEDOUT) timed_out_legit(me, now0, sim0, o, ci, "skip_read");
                else if (delta < o.n && eof_ok(C, me, peer)) { if (!(e == ECONNRESET || e == EPIPE)) at_eof(ci, d, C, me, peer, D); else dead = true; }
                else if ((e == ECONNRESET || e == EPIPE) && (C.reset || peer.released || simk::was_reset(me.fd))) dead = true;
                else HX_VIOL("short-read", "%s: conn %d: skip_read(%llu) failed after %llu bytes (errno %d) although the stream has not ended and no timeout occurred", desc, ci, (unsigned long long)o.n, (unsigned long long)delta, e);
            } else sim::probe("skip_read_ok");
            return;
        }
        Buf b; b.make(o.n, vec ? o.nseg : 1, vec);
        uint64_t c0 = simk::rx_consumed(me.fd), now0 = photon::now, sim0 = sim::now_ns(), pert0 = sim::perturbed_ns();
        ssize_t rc; int e;
        {
            phx::Where w(rec, kind_name(o.kind), i);
            if (me.in_call) sim::probe("both_directions_of_one_stream_in_flight");
            me.in_call++;
            errno = 0;
            switch (o.kind) {
                case O_READ: rc = me.s->read(b.iov[0].iov_base, o.n); break;
                case O_READV: rc = me.s->readv(b.iov.data(), b.iov.size()); break;
                case O_RECV: rc = me.s->recv(b.iov[0].iov_base, o.n); break;
                case O_RECV_AT_LEAST: rc = me.s->recv_at_least(b.iov[0].iov_base, o.n, o.us /* least */); break;
                default: rc = me.s->recv(b.iov.data(), (int)b.iov.size()); break;
            }
            e = errno;
            me.in_call--;
        }
        uint64_t delta = simk::rx_consumed(me.fd) - c0;
        sim::note("op %zu conn %d dir %d: %s(%llu bytes, %zu iovec) = %zd errno %d; kernel handed out %llu; stream offset %llu", i, ci, d, kind_name(o.kind), (unsigned long long)o.n, b.iov.size(),
                  rc, rc < 0 ? e : 0, (unsigned long long)delta, (unsigned long long)D.r_off);
        if (!b.guards_ok()) HX_VIOL("overrun", "%s: conn %d: %s(%llu) wrote outside the caller's buffers", desc, ci, kind_name(o.kind), (unsigned long long)o.n);
        if (o.kind != O_RECV_AT_LEAST) check_not_hung(me, sim0, pert0, o, ci, kind_name(o.kind), rc);      // (recv_at_least() is a sequence of recv() calls)
        uint64_t got = rc >= 0 ? (uint64_t)rc : delta;
        if (rc >= 0 && (uint64_t)rc != delta)
            HX_VIOL("read-count", "%s: conn %d: %s(%llu) returned %zd but took %llu bytes out of the socket (bytes lost or invented)", desc, ci, kind_name(o.kind), (unsigned long long)o.n, rc, (unsigned long long)delta);
        if (got > o.n) HX_VIOL("read-count", "%s: conn %d: %s(%llu) consumed %llu bytes", desc, ci, kind_name(o.kind), (unsigned long long)o.n, (unsigned long long)got);
        for (uint64_t k = 0; k < got; k++)
            if (b.at(k) != content(D.salt, D.r_off + k))
                HX_VIOL("data", "%s: conn %d dir %d: %s(%llu) = %zd: byte %llu of the buffer is 0x%02x, the stream holds 0x%02x at offset %llu (reordered, duplicated or misplaced bytes)", desc, ci, d,
                        kind_name(o.kind), (unsigned long long)o.n, rc, (unsigned long long)k, b.at(k), content(D.salt, D.r_off + k), (unsigned long long)(D.r_off + k));
        D.r_off += got;
        if (rc >= 0) {
            if (full && (uint64_t)rc < o.n) {
                if (!eof_ok(C, me, peer))
                    HX_VIOL("short-read", "%s: conn %d: %s(%llu) returned %zd although the peer has neither closed nor shut down its sending side, and no error or timeout occurred", desc, ci,
                            kind_name(o.kind), (unsigned long long)o.n, rc);
                at_eof(ci, d, C, me, peer, D);
            } else if (o.kind == O_RECV_AT_LEAST && (uint64_t)rc < o.us) {
                if (!eof_ok(C, me, peer)) HX_VIOL("short-read", "%s: conn %d: recv_at_least(%llu, least %llu) returned %zd although the stream has not ended", desc, ci, (unsigned long long)o.n, (unsigned long long)o.us, rc);
                at_eof(ci, d, C, me, peer, D);
            } else if (!full && rc == 0 && o.n > 0) {
                if (!eof_ok(C, me, peer)) HX_VIOL("short-read", "%s: conn %d: %s(%llu) returned 0 although the stream has not ended", desc, ci, kind_name(o.kind), (unsigned long long)o.n);
                at_eof(ci, d, C, me, peer, D);
            } else if (rc > 0) sim::probe(full ? "read_full" : "recv_partial_or_full");
        } else {
            if (e == ETIMEDOUT) { timed_out_legit(me, now0, sim0, o, ci, kind_name(o.kind)); sim::probe("read_timeout"); if (delta) sim::probe("read_timeout_after_partial_progress"); }
            else if ((e == ECONNRESET || e == EPIPE) && (C.reset || peer.released || simk::was_reset(me.fd))) { dead = true; sim::probe("read_on_reset_connection"); }
            else HX_VIOL("errno", "%s: conn %d: %s(%llu) failed with errno %d (%s); the stream timeout is %lld us", desc, ci, kind_name(o.kind), (unsigned long long)o.n, e, strerror(e), (long long)me.tmo);
        }
    };
    for (size_t i = 0; i < plan.size() && !dead && !D.r_eof; i++) {
        const Op& o = plan[i];
        if (o.conn != ci || o.dir != d || o.role != ROLE_R || hx::dropped(i)) continue;
        if (o.kind == O_SLEEP) { phx::Where w(rec, "sleep", i); photon::thread_usleep(o.us); continue; }
        if (o.kind == O_SHUTDOWN) {
            phx::Where w(rec, "shutdown", i);
            if (o.how != 1) me.shut_rd = true;
            if (o.how != 0) me.shut_wr = true;
            me.s->shutdown(o.how == 0 ? ShutdownHow::Read : o.how == 1 ? ShutdownHow::Write : ShutdownHow::ReadWrite);
            sim::note("op %zu conn %d: endpoint %d shutdown(%s)", i, ci, 1 - d, o.how == 0 ? "RD" : o.how == 1 ? "WR" : "RDWR");
            sim::probe("mid_stream_shutdown");
            continue;
        }
        do_read(o, i);
    }
    // drain to the end of the stream, so that completeness is decided
    Op drain{ci, d, ROLE_R, O_READ, 0, 1, 0, 0};
    for (int it = 0; it < 100000 && !dead && !D.r_eof; it++) { drain.n = 1 + sim::rnd(8192); drain.kind = sim::rnd(2) ? O_READ : O_RECV; do_read(drain, (size_t)-1); }
    { phx::Where w(rec, "close", -1); release_and_close(me); }
}

ISocketServer* SERVER; ISocketClient* CLIENT;
EndPoint server_ep; const char* uds_path = "/simulated/c10.sock";

void acceptor(int id) {
    auto& rec = W.threads[id];
    SERVER = sock_kind == 1 ? new_uds_server(false) : sock_kind == 2 ? new_et_tcp_socket_server() : new_tcp_socket_server();
    int r = sock_kind == 1 ? SERVER->bind(uds_path) : SERVER->bind(EndPoint(IPAddr::V4Loopback(), 7000));
    if (r < 0 || SERVER->listen(16) < 0) { setup_failed = true; sim::finish("error", "harness", "bind/listen failed errno %d", errno); }
    { sim::NoSched ns; server_ep = EndPoint(IPAddr::V4Loopback(), 7000); }
    for (int c = 0; c < nconn; c++) {
        phx::Where w(rec, "accept", c);
        ISocketStream* s = SERVER->accept();
        if (!s) { setup_failed = true; HX_VIOL("accept", "%s: accept() of connection %d failed with errno %d", desc, c, errno); }
        EP& e = conns[c].ep[1];
        e.fd = (int)(uint64_t)s->get_underlay_object(0);
        s->timeout(e.tmo);
        e.s = s; conns[c].accepted = true;
    }
    // the listener goes away while the connections are in use
    { phx::Where w(rec, "delete-server", -1); delete SERVER; SERVER = nullptr; }
}

void connector(int id) {
    auto& rec = W.threads[id];
    { phx::Where w(rec, "wait-listener", -1); while (!SERVER || server_ep.port == 0) photon::thread_usleep(50); photon::thread_usleep(100); }
    CLIENT = sock_kind == 1 ? new_uds_client() : sock_kind == 2 ? new_et_tcp_socket_client() : new_tcp_socket_client();
    for (int c = 0; c < nconn; c++) {
        ISocketStream* s;
        { phx::Where w(rec, "connect", c); s = sock_kind == 1 ? CLIENT->connect(uds_path) : CLIENT->connect(server_ep); }
        if (!s) { setup_failed = true; HX_VIOL("connect", "%s: connect() of connection %d failed with errno %d although the listener exists and its backlog is not full", desc, c, errno); }
        EP& e = conns[c].ep[0];
        e.fd = (int)(uint64_t)s->get_underlay_object(0);
        s->timeout(e.tmo);
        e.s = s; conns[c].connected = true;
        { phx::Where w(rec, "wait-accepted", c); while (!conns[c].accepted) photon::thread_usleep(50); }
    }
    delete CLIENT; CLIENT = nullptr;
}

void resetter(int id) {
    auto& rec = W.threads[id];
    for (int c = 0; c < nconn; c++) {
        Conn& C = conns[c];
        if (!C.reset_at_us) continue;
        { phx::Where w(rec, "wait-connection", c); while (!C.connected || !C.accepted) photon::thread_usleep(50); }
        { phx::Where w(rec, "sleep", c); photon::thread_usleep(C.reset_at_us); }
        sim::NoSched ns;
        if (C.ep[0].released || C.ep[1].released || !C.ep[0].s) continue;
        C.reset = true;
        simk::inject_reset(C.ep[0].fd);
        sim::note("connection %d reset by the network", c);
    }
}

void build() {
    engine_kind = sim::rnd(2); sock_kind = sim::rnd(10) < 5 ? 0 : sim::rnd(10) < 4 ? 1 : 2;
    if (hx::param("engine", -1) >= 0) engine_kind = hx::param("engine", 0);
    if (hx::param("sock", -1) >= 0) sock_kind = hx::param("sock", 0);
    nvcpu = sim::rnd(4) == 0 ? 2 : 1;
    nconn = 1 + sim::rnd(sim::rnd(3) ? 2 : 5);
    vc_client = 0; vc_server = nvcpu - 1;
    // kernel behaviour of this run
    static const uint32_t SB[] = {1, 3, 17, 256, 1024, 4096, 16384, 65536};
    uint32_t sb = SB[sim::rnd(8)];
    simk::tuning.n_sndbuf = 2; simk::tuning.sndbuf_choices[0] = sb; simk::tuning.sndbuf_choices[1] = SB[sim::rnd(8)];
    if (simk::tuning.sndbuf_choices[1] < 17 && sb >= 256) simk::tuning.sndbuf_choices[1] = sb;     // keep the work of one run bounded
    simk::tuning.lat_max_us = sim::rnd(3) == 0 ? 0 : sim::rnd(2) ? 50 : 2000;
    simk::tuning.p_short_read = sim::rnd(3) ? 0 : 50 + sim::rnd(300);
    simk::tuning.p_short_write = sim::rnd(3) ? 0 : 50 + sim::rnd(300);
    simk::tuning.wspace_threshold = sim::rnd(2);
    uint64_t unit = std::max<uint32_t>(std::min(simk::tuning.sndbuf_choices[0], simk::tuning.sndbuf_choices[1]), 1);
    uint64_t cap = std::min<uint64_t>(unit * 60 + 300, 150000);          // bytes per direction: from nothing to several socket buffers
    conns.resize(nconn);
    bool any_tmo = sim::rnd(3) == 0, any_fault = sim::rnd(4) == 0;
    for (int c = 0; c < nconn; c++) {
        Conn& C = conns[c];
        for (int d = 0; d < 2; d++) {
            C.dir[d].salt = 1 + sim::rnd(1000000);
            static const uint64_t T[] = {200, 1000, 5000, 30000};
            C.ep[d].tmo = any_tmo && sim::rnd(2) ? T[sim::rnd(4)] : -1ULL;
            uint64_t total = sim::rnd(5) == 0 ? 0 : sim::rnd(3) == 0 ? sim::rnd(200) : sim::rnd(cap);
            int nw = 1 + sim::rnd(6), nr = 1 + sim::rnd(6);
            uint64_t left = total;
            for (int k = 0; k < nw; k++) {
                Op o{c, d, ROLE_W, 0, 0, 1, 0, 0};
                int kk = sim::rnd(10);
                if (kk < 2 && k) { o.kind = O_SLEEP; o.us = sim::rnd(3) ? sim::rnd(300) : sim::rnd(40000); plan.push_back(o); continue; }
                o.kind = kk < 5 ? O_WRITE : kk < 8 ? O_WRITEV : kk < 9 ? O_SEND : O_SENDV;
                o.n = k == nw - 1 ? left : sim::rnd(left + 1); left -= o.n;
                if (sim::rnd(12) == 0) o.n = 0;
                o.nseg = 1 + sim::rnd(7);
                plan.push_back(o);
            }
            for (int k = 0; k < nr; k++) {
                Op o{c, d, ROLE_R, 0, 0, 1, 0, 0};
                int kk = sim::rnd(20);
                if (kk < 4) { o.kind = O_SLEEP; o.us = sim::rnd(3) ? sim::rnd(300) : sim::rnd(40000); plan.push_back(o); continue; }
                if (kk == 4 && any_fault) { o.kind = O_SHUTDOWN; o.how = sim::rnd(3); plan.push_back(o); continue; }
                o.kind = kk < 10 ? O_READ : kk < 14 ? O_READV : kk < 17 ? O_RECV : O_RECVV;
                o.n = sim::rnd(4) == 0 ? 1 + sim::rnd(16) : 1 + sim::rnd(total / 2 + 64);
                if (sim::rnd(8) == 0) { o.kind = O_RECV_AT_LEAST; o.us = 1 + sim::rnd(o.n); }       // `us` carries the least count
                else if (sim::rnd(10) == 0) o.kind = O_SKIP;
                o.nseg = 1 + sim::rnd(7);
                plan.push_back(o);
            }
        }
        if (any_fault && sim::rnd(4) == 0) C.reset_at_us = 1 + sim::rnd(sim::rnd(2) ? 500 : 30000);
    }
    snprintf(desc, sizeof desc, "%s engine, %s sockets, %d vCPU(s), %d connection(s), send buffers %u/%u bytes, latency <= %u us%s%s", engine_kind ? "epoll-ng" : "epoll",
             sock_kind == 0 ? "TCP" : sock_kind == 1 ? "Unix-domain" : "edge-triggered TCP", nvcpu, nconn, simk::tuning.sndbuf_choices[0], simk::tuning.sndbuf_choices[1], simk::tuning.lat_max_us,
             any_tmo ? ", stream timeouts" : "", any_fault ? ", shutdowns/resets" : "");
}

}  // namespace

void harness_run(uint64_t seed) {
    phx::quiet_logs();
    build();
    W.nvcpu = nvcpu;
    W.add(vc_server, [](int id) { acceptor(id); });
    W.add(vc_client, [](int id) { connector(id); });
    for (int c = 0; c < nconn; c++)
        for (int d = 0; d < 2; d++) {
            // endpoint d (0 client, 1 server) hosts the writer of direction d and the reader of direction 1-d
            int vw = d == 0 ? vc_client : vc_server, vr = d == 0 ? vc_server : vc_client;
            W.add(vw, [c, d](int id) { writer(id, c, d); });
            W.add(vr, [c, d](int id) { reader(id, c, d); });
        }
    W.add(vc_client, [](int id) { resetter(id); });
    W.vcpu_pre = [](int) {
        if (photon::fd_events_init(engine_kind ? photon::INIT_EVENT_EPOLL_NG : photon::INIT_EVENT_EPOLL) < 0) sim::finish("error", "harness", "event engine init failed");
        if (sock_kind == 2 && photon::net::et_poller_init() < 0) sim::finish("error", "harness", "et_poller_init failed");
    };
    W.vcpu_end = [](int) {
        if (sock_kind == 2) photon::net::et_poller_fini();
        photon::fd_events_fini();
    };
    char nb[16]; snprintf(nb, sizeof nb, "%zu", plan.size());
    sim::extra_json("nops", nb);
    char pl[400]; snprintf(pl, sizeof pl, "\"%s\"", desc);
    sim::extra_json("plan", pl);
    sim::cfg.max_steps = 80000000;
    sim::start();
    timing_verdicts = sim::cfg.cpu_cost_ns == 0 && sim::cfg.n_stalls == 0;
    slack_us = 6ULL * sim::cfg.tsc_gran_us + 3000;
    W.deadline_ns = sim::now_ns() + 120000000000ULL;
    W.run();
    auto& st = simk::stats;
    if (st.eagain_read) sim::probe("reader_waited_for_data", st.eagain_read);
    if (st.eagain_write) sim::probe("writer_waited_for_space", st.eagain_write);
    if (st.max_batch >= 16) sim::probe("epoll_batch_full");
    if (st.short_reads) sim::probe("kernel_short_reads", st.short_reads);
    if (st.bytes) sim::probe("nontrivial");
    if (simk::open_fds()) sim::probe("descriptors_left_open");
    sim::finish("ok", "", "%s; %llu bytes in %llu segments, %llu epoll_wait calls", desc, (unsigned long long)st.bytes, (unsigned long long)st.segments, (unsigned long long)st.epoll_waits);
}

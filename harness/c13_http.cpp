// C13 — HTTP/1.1 framing: the parse does not depend on how the bytes were split across recv() calls;
// Content-Length / chunked / close-delimited bodies are returned exactly; writer -> reader round trip;
// malformed or truncated input never causes an out-of-bounds access or an endless loop.
#include "phx.h"
#include "simstream.h"
#include <photon/net/http/message.h>
#include <photon/net/http/headers.h>
#include <algorithm>
#include <string>

using namespace photon;
using namespace photon::net;
using namespace photon::net::http;

namespace {

// receive_header() is what the library's own client/server call; it is protected in Message
struct Req : Request { using Request::Request; using Message::receive_header; using Message::skip_remain; };
struct Resp : Response { using Response::Response; using Message::receive_header; using Message::skip_remain; };

struct Truth {
    bool is_request = false;
    int status = 200; std::string verb, target;
    std::vector<std::pair<std::string, std::string>> headers;   // as generated (names keep their case)
    std::string body;
    int framing = 0;        // 0 content-length, 1 chunked, 2 close-delimited, 3 none (no body)
};
struct Parsed {
    int rc_header = 0, en = 0; int status = 0; std::string verb, target;
    std::vector<std::pair<std::string, std::string>> headers;   // lower-cased names, sorted
    std::string body; int body_end = 1;   // 0: clean end-of-body, -1: error, 1: not reached
    uint64_t recv_calls = 0;
};

std::string lower(std::string s) { for (auto& c : s) c = tolower(c); return s; }
std::string rnd_token(int n, const char* alphabet) { std::string s; size_t m = strlen(alphabet); for (int i = 0; i < n; i++) s += alphabet[sim::rnd(m)]; return s; }
std::string rnd_bytes(size_t n) { std::string s(n, 0); for (auto& c : s) c = (char)sim::rnd(256); return s; }

std::string gen_message(Truth& t) {
    t.is_request = sim::rnd(4) == 0;
    std::string w;
    if (t.is_request) {
        static const char* VERBS[] = {"GET", "POST", "PUT", "DELETE", "HEAD"};
        t.verb = VERBS[sim::rnd(5)];
        t.target = "/" + rnd_token(sim::rnd(40), "abcdefghijklmnopqrstuvwxyz0123456789/-_.");
        w = t.verb + " " + t.target + " HTTP/1.1\r\n";
    } else {
        static const int CODES[] = {200, 204, 206, 301, 404, 500};
        t.status = CODES[sim::rnd(6)];
        w = "HTTP/1.1 " + std::to_string(t.status) + " " + rnd_token(1 + sim::rnd(12), "ABCDEFGHIJKLMNOPQRSTUVWXYZ abcdefghij") + "\r\n";
    }
    int nh = sim::rnd(10) == 0 ? 20 + sim::rnd(40) : sim::rnd(8);
    static const char* NAMES[] = {"Host", "X-Trace", "x-trace", "Accept", "ETag", "Server", "X-Long-Header-Name-For-Testing", "Cache-Control", "x-amz-request-id", "Date"};
    for (int i = 0; i < nh; i++) {
        std::string k = sim::rnd(3) ? NAMES[sim::rnd(10)] : "X-" + rnd_token(1 + sim::rnd(12), "abcdefghijklmnopqrstuvwxyzABCDEFG-");
        std::string v = rnd_token(sim::rnd(5) == 0 ? 100 + sim::rnd(300) : 1 + sim::rnd(30), "abcdefghijklmnopqrstuvwxyz0123456789=;,/\" ");
        while (!v.empty() && v.back() == ' ') v.pop_back();
        while (!v.empty() && v.front() == ' ') v.erase(0, 1);
        // an empty field value is valid HTTP ("X-Empty:" CRLF); one header in ten has one
        if (sim::rnd(10) == 0) v.clear(); else if (v.empty()) v = "v";
        t.headers.push_back({k, v});
    }
    size_t blen = sim::rnd(4) == 0 ? 0 : (sim::rnd(4) == 0 ? 4000 + sim::rnd(30000) : sim::rnd(600));
    t.body = rnd_bytes(blen);
    bool head = t.is_request && t.verb == "HEAD";
    t.framing = head ? 3 : (int)sim::rnd(t.is_request ? 2 : 3);
    if (!t.is_request && (t.status == 204)) { t.framing = 0; t.body.clear(); }
    if (head) t.body.clear();
    if (t.framing == 0) t.headers.push_back({sim::rnd(2) ? "Content-Length" : "content-length", std::to_string(t.body.size())});
    else if (t.framing == 1) t.headers.push_back({"Transfer-Encoding", "chunked"});
    else if (t.framing == 2) t.headers.push_back({"Connection", "close"});
    // random position for the framing header
    if (!t.headers.empty()) std::swap(t.headers.back(), t.headers[sim::rnd(t.headers.size())]);
    // optional whitespace after the colon: none, one or two spaces
    for (auto& kv : t.headers) { uint64_t o = sim::rnd(8); w += kv.first + (o == 0 ? ":" : o == 1 ? ":  " : ": ") + kv.second + "\r\n"; }
    w += "\r\n";
    if (t.framing == 1) {
        size_t off = 0;
        while (off < t.body.size()) {
            size_t n = sim::rnd(5) == 0 ? 2000 + sim::rnd(6000) : 1 + sim::rnd(200);
            n = std::min(n, t.body.size() - off);
            char hex[32]; snprintf(hex, sizeof hex, sim::rnd(2) ? "%zx" : "%zX", n);
            w += hex; w += "\r\n"; w.append(t.body, off, n); w += "\r\n";
            off += n;
        }
        w += "0\r\n\r\n";
    } else w += t.body;
    return w;
}

struct GuardedBuf {        // exact-size buffer with poisoned red zones on both sides
    char* base; char* buf; size_t cap;
    explicit GuardedBuf(size_t c) : cap(c) { base = (char*)malloc(c + 512); buf = base + 256; memset(base, 0xEE, c + 512);
        sim::poison(base, 256, "red zone before the HTTP message buffer"); sim::poison(buf + c, 256, "red zone after the HTTP message buffer"); }
    ~GuardedBuf() { sim::unpoison(base, cap + 512); free(base); }
};

Parsed parse(const std::string& wire, bool is_request, const std::vector<uint32_t>& seg, const std::vector<uint64_t>& delays, uint64_t eof_at,
             uint64_t header_timeout, const std::vector<uint32_t>& read_sizes, size_t bufcap) {
    Parsed r;
    simstream::Pipe pipe;
    pipe.a2b.seg = seg; pipe.a2b.delay_us = delays; pipe.a2b.eof_at = eof_at;
    pipe.a2b.buf = wire; pipe.a2b.total_written = wire.size(); pipe.a2b.eof = true;    // the peer wrote everything and closed
    GuardedBuf gb(bufcap);
    Req req; Resp resp;
    Message* m;
    if (is_request) { req.Message::reset(gb.buf, (uint16_t)bufcap, false, &pipe.b, false); m = &req; }
    else { resp.reset(gb.buf, (uint16_t)bufcap, false, &pipe.b, false); m = &resp; }
    r.rc_header = is_request ? req.receive_header(header_timeout) : resp.receive_header(header_timeout);
    r.en = errno;
    if (r.rc_header != 0) { r.recv_calls = pipe.b.n_recv_calls; return r; }
    if (is_request) { r.verb = std::string(verbstr[req.verb()]); r.target = std::string(req.target()); }
    else r.status = resp.status_code();
    for (auto it = m->headers.begin(); it != m->headers.end(); ++it) r.headers.push_back({lower(std::string(it.first())), std::string(it.second())});
    std::sort(r.headers.begin(), r.headers.end());
    std::string tmp(40000, 0);
    size_t k = 0;
    for (int guard = 0; guard < 200000; guard++) {
        size_t n = read_sizes.empty() ? tmp.size() : std::max<size_t>(1, read_sizes[k++ % read_sizes.size()]);
        n = std::min(n, tmp.size());
        ssize_t rc = m->read(&tmp[0], n);
        if (rc < 0) { r.body_end = -1; break; }
        if (rc == 0) { r.body_end = 0; break; }
        if ((size_t)rc > n) HX_VIOL("result", "Message::read(%zu) returned %zd", n, rc);
        r.body.append(tmp.data(), rc);
    }
    r.recv_calls = pipe.b.n_recv_calls;
    return r;
}

std::vector<std::pair<std::string, std::string>> truth_headers(const Truth& t) {
    std::vector<std::pair<std::string, std::string>> v;
    for (auto& kv : t.headers) v.push_back({lower(kv.first), kv.second});
    std::sort(v.begin(), v.end());
    return v;
}

std::vector<uint32_t> rnd_seg() {
    std::vector<uint32_t> s;
    int style = sim::rnd(6);
    if (style == 0) return s;                                   // one piece
    if (style == 1) { s.push_back(1); return s; }                // one byte at a time
    int n = 1 + sim::rnd(12);
    for (int i = 0; i < n; i++) s.push_back(style == 2 ? 1 + sim::rnd(4) : style == 3 ? 1 + sim::rnd(64) : 1 + sim::rnd(3000));
    return s;
}
std::vector<uint32_t> rnd_reads() {
    std::vector<uint32_t> s; int n = sim::rnd(5);
    for (int i = 0; i < n; i++) s.push_back(sim::rnd(3) == 0 ? 1 + sim::rnd(8) : 1 + sim::rnd(5000));
    return s;
}

void describe(char* out, size_t n, const Truth& t, const std::vector<uint32_t>& seg, size_t wire_len) {
    std::string s; for (size_t i = 0; i < seg.size() && i < 8; i++) s += std::to_string(seg[i]) + ",";
    snprintf(out, n, "%s framing=%d headers=%zu body=%zu wire=%zu seg=[%s%s]", t.is_request ? "request" : "response", t.framing, t.headers.size(), t.body.size(), wire_len, s.c_str(),
             seg.size() > 8 ? "..." : "");
}

void check_valid(const Truth& t, const std::string& wire) {
    // the message buffer must leave room for one 4 KiB transfer plus the header index behind the header
    static const size_t CAPS[] = {16384, 32768, 65535};
    size_t cap = CAPS[sim::rnd(3)]; if (wire.size() - t.body.size() + 6144 > cap) cap = 65535;
    for (int round = 0; round < 6; round++) {
        auto seg = round == 0 ? std::vector<uint32_t>() : rnd_seg();
        auto reads = rnd_reads();
        // a length-delimited message may be followed at once by the next one on the same connection (pipelining): whatever the
        // split, its body ends where the framing says, and nothing of what follows belongs to it
        std::string follow;
        if (t.framing != 2 && round >= 3 && sim::rnd(2)) {
            follow = sim::rnd(2) ? "HTTP/1.1 200 OK\r\nContent-Length: 7\r\nX-Next: 1\r\n\r\nnextmsg" : rnd_bytes(1 + sim::rnd(300));
            sim::probe("pipelined_bytes_after_message");
        }
        Parsed p = parse(wire + follow, t.is_request, seg, {}, ~0ULL, -1ULL, reads, cap);
        char d[256]; describe(d, sizeof d, t, seg, wire.size());
        if (p.rc_header != 0) HX_VIOL("valid-rejected", "receive_header() = %d (errno %d) on a valid message: %s", p.rc_header, p.en, d);
        if (!t.is_request && p.status != t.status) HX_VIOL("parse-differs", "status %d parsed, %d sent: %s", p.status, t.status, d);
        if (t.is_request && (p.verb != t.verb || p.target != t.target)) HX_VIOL("parse-differs", "request line parsed as '%s %s', sent '%s %s': %s", p.verb.c_str(), p.target.c_str(), t.verb.c_str(), t.target.c_str(), d);
        if (p.headers != truth_headers(t)) HX_VIOL("parse-differs", "header multimap differs from what was sent (%zu parsed, %zu sent): %s", p.headers.size(), t.headers.size(), d);
        if (p.body != t.body) {
            size_t i = 0; while (i < p.body.size() && i < t.body.size() && p.body[i] == t.body[i]) i++;
            HX_VIOL("body-differs", "body differs at byte %zu (read %zu bytes, sent %zu): %s", i, p.body.size(), t.body.size(), d);
        }
        if (p.body_end != 0) HX_VIOL("body-end", "after the whole body read() returned an error instead of end-of-body: %s", d);
        if (seg.size() && seg[0] < 8) sim::probe("fine_fragmentation");
        sim::probe("valid_parse");
    }
}

void check_roundtrip() {
    // library writer -> fragmenting transport -> library reader
    simstream::Pipe pipe;
    pipe.a2b.seg = rnd_seg();
    bool chunked = sim::rnd(2);
    std::string body = rnd_bytes(sim::rnd(3) == 0 ? 0 : sim::rnd(20000));
    GuardedBuf wb(16384), rb(16384);
    Response w(wb.buf, 16384);
    w.reset(&pipe.a, false);
    w.set_result(200);
    if (chunked) w.headers.insert("Transfer-Encoding", "chunked"); else w.headers.content_length(body.size());
    w.headers.insert("X-Check", "roundtrip");
    size_t off = 0;
    if (body.empty()) { if (w.send() < 0) HX_VIOL("writer", "send() of an empty-body message failed"); }
    while (off < body.size()) {
        size_t n = std::min(body.size() - off, (size_t)(1 + sim::rnd(sim::rnd(4) == 0 ? 8000 : 300)));
        ssize_t rc;
        if (sim::rnd(3) == 0) {
            struct iovec iov[3]; size_t a = sim::rnd(n + 1), b = sim::rnd(n - a + 1);
            iov[0] = {(void*)(body.data() + off), a}; iov[1] = {(void*)(body.data() + off + a), b}; iov[2] = {(void*)(body.data() + off + a + b), n - a - b};
            rc = w.writev(iov, 3);
        } else rc = w.write(body.data() + off, n);
        if (rc != (ssize_t)n) HX_VIOL("writer", "body write(%zu) returned %zd (chunked=%d)", n, rc, (int)chunked);
        off += n;
    }
    w.send();
    w.reset(wb.buf, 16384, false, nullptr, false);       // destroys the body writer (terminates a chunked body)
    pipe.a.shutdown(ShutdownHow::Write);
    Resp r(rb.buf, 16384);
    r.reset(&pipe.b, false);
    int rc = r.receive_header();
    if (rc != 0) HX_VIOL("roundtrip", "reader rejects the message produced by the library's own writer (rc %d, chunked=%d, body %zu)", rc, (int)chunked, body.size());
    if (r.headers["X-Check"] != "roundtrip") HX_VIOL("roundtrip", "header lost in round trip");
    std::string got, tmp(9000, 0);
    for (;;) { ssize_t n = r.read(&tmp[0], 1 + sim::rnd(tmp.size())); if (n < 0) HX_VIOL("roundtrip", "read error in round trip (chunked=%d)", (int)chunked); if (n == 0) break; got.append(tmp.data(), n); }
    if (got != body) HX_VIOL("roundtrip", "body written through the %s writer is read back differently (%zu written, %zu read)", chunked ? "chunked" : "fixed-length", body.size(), got.size());
    sim::probe("roundtrip");
}

void check_keepalive() {
    // several messages on one connection, each sent only after the previous one has been read to its end (no pipelining):
    // every message must parse exactly as alone, i.e. the reader consumes exactly the bytes of a message -- a byte left in the
    // stream or taken from the next message shows up in the message that follows
    simstream::Pipe pipe;
    pipe.a2b.seg = rnd_seg();
    pipe.b.timeout(200000);         // a reader waiting for bytes that belong to no message gives up (and is reported)
    int n = 2 + sim::rnd(3);
    bool is_request = sim::rnd(3) == 0;
    GuardedBuf gb(65535);
    Req req; Resp resp; Message* m = is_request ? (Message*)&req : (Message*)&resp;
    if (is_request) req.Message::reset(gb.buf, (uint16_t)65535, false, &pipe.b, false); else resp.reset(gb.buf, (uint16_t)65535, false, &pipe.b, false);
    for (int i = 0; i < n; i++) {
        Truth t; std::string wire;
        for (int tries = 0; tries < 50; tries++) { t = Truth(); wire = gen_message(t); if (t.is_request == is_request && t.framing != 2 && wire.size() - t.body.size() < 40000) break; wire.clear(); }
        if (wire.empty()) return;
        pipe.a2b.buf.append(wire); pipe.a2b.total_written += wire.size(); pipe.a2b.readable.notify_all();
        if (i) { if (is_request) req.reset(&pipe.b, false); else resp.reset(&pipe.b, false); }
        int rc = is_request ? req.receive_header(-1ULL) : resp.receive_header(-1ULL);
        char d[300]; snprintf(d, sizeof d, "message %d of %d on one connection (%s, framing %d, %zu headers, body %zu)", i + 1, n, is_request ? "request" : "response", t.framing, t.headers.size(), t.body.size());
        if (rc != 0) HX_VIOL("valid-rejected", "receive_header() = %d (errno %d): %s", rc, errno, d);
        if (!is_request && resp.status_code() != t.status) HX_VIOL("parse-differs", "status %d parsed, %d sent: %s", resp.status_code(), t.status, d);
        if (is_request && (std::string(verbstr[req.verb()]) != t.verb || std::string(req.target()) != t.target)) HX_VIOL("parse-differs", "request line differs: %s", d);
        std::vector<std::pair<std::string, std::string>> hs;
        for (auto it = m->headers.begin(); it != m->headers.end(); ++it) hs.push_back({lower(std::string(it.first())), std::string(it.second())});
        std::sort(hs.begin(), hs.end());
        if (hs != truth_headers(t)) HX_VIOL("parse-differs", "header multimap differs from what was sent: %s", d);
        std::string body, tmp(40000, 0);
        if (t.framing == 0 && t.body.size() > 1 && sim::rnd(3) == 0) {
            // the application loses interest half-way: the rest of a Content-Length body is skipped, the connection stays usable
            size_t part = sim::rnd(t.body.size());
            while (body.size() < part) {
                ssize_t k = m->read(&tmp[0], std::min<size_t>(part - body.size(), 1 + sim::rnd(4000)));
                if (k <= 0) HX_VIOL("body-end", "body read returned %zd after %zu of %zu bytes: %s", k, body.size(), t.body.size(), d);
                body.append(tmp.data(), k);
            }
            if (body != t.body.substr(0, body.size())) HX_VIOL("body-differs", "the first %zu body bytes differ: %s", body.size(), d);
            int sr = is_request ? req.skip_remain() : resp.skip_remain();       // (what the library's client does with a response nobody reads to the end)
            sim::probe("skip_remain");
            if (sr != 0) { if (t.body.size() - part <= 4096) HX_VIOL("body-end", "skip_remain() = %d with %zu bytes left: %s", sr, t.body.size() - part, d); return; }
            continue;
        }
        for (int guard = 0; guard < 200000; guard++) {
            ssize_t k = m->read(&tmp[0], sim::rnd(3) == 0 ? 1 + sim::rnd(16) : 1 + sim::rnd(tmp.size()));
            if (k < 0) HX_VIOL("body-end", "body read failed (errno %d) instead of reaching end-of-body: %s", errno, d);
            if (k == 0) break;
            body.append(tmp.data(), k);
        }
        if (body != t.body) HX_VIOL("body-differs", "body differs (read %zu bytes, sent %zu): %s", body.size(), t.body.size(), d);
    }
    sim::probe("keepalive_sequence");
}

void check_hostile(const Truth& t, std::string wire) {
    // truncation at any byte, flipped / inserted / removed bytes, delays against the header timeout:
    // any result is acceptable except a crash, an access outside the buffers, or an endless loop
    int kind = sim::rnd(4);
    uint64_t eof_at = ~0ULL; std::vector<uint64_t> delays; uint64_t tmo = -1ULL;
    if (kind == 0) { eof_at = sim::rnd(wire.size() + 1); sim::fault_fired("truncated_stream"); }
    else if (kind == 1) { int n = 1 + sim::rnd(4); for (int i = 0; i < n && !wire.empty(); i++) wire[sim::rnd(wire.size())] = (char)sim::rnd(256); sim::fault_fired("flipped_bytes"); }
    else if (kind == 2) { size_t p = sim::rnd(wire.size() + 1); if (sim::rnd(2)) wire.insert(p, rnd_bytes(1 + sim::rnd(8))); else if (p < wire.size()) wire.erase(p, 1 + sim::rnd(8)); sim::fault_fired("inserted_or_removed_bytes"); }
    else { int n = 1 + sim::rnd(6); for (int i = 0; i < n; i++) delays.push_back(sim::rnd(3) ? 0 : 100 + sim::rnd(2000)); tmo = 500 + sim::rnd(3000); sim::fault_fired("delayed_segments"); }
    uint64_t steps0 = sim::steps();
    Parsed p = parse(wire, t.is_request, rnd_seg(), delays, eof_at, tmo, rnd_reads(), sim::rnd(2) ? 16384 : 65535);
    if (kind == 3 && p.rc_header == 0 && p.body_end == 0 && p.body != t.body)
        HX_VIOL("body-differs", "with delayed segments the message parsed successfully but the body differs (read %zu, sent %zu)", p.body.size(), t.body.size());
    if (kind == 0 && p.rc_header == 0 && p.body_end == 0 && t.framing != 2 && eof_at < wire.size() && p.body.size() == t.body.size() && p.body == t.body && eof_at + 5 < wire.size() - (t.framing == 1 ? 5 : 0) && !t.body.empty())
        HX_VIOL("truncation-unnoticed", "stream truncated at byte %llu of %zu but the whole body was returned", (unsigned long long)eof_at, wire.size());
    if (p.body.size() > wire.size()) HX_VIOL("phantom-bytes", "more body bytes returned (%zu) than the whole input holds (%zu)", p.body.size(), wire.size());
    (void)steps0;
    sim::probe(p.rc_header == 0 ? "hostile_header_accepted" : "hostile_header_rejected");
}

void work(int) {
    for (int i = 0; i < 4; i++) {
        Truth t; std::string wire = gen_message(t);
        check_valid(t, wire);
        check_hostile(t, wire);
        if (sim::rnd(2)) check_hostile(t, wire);
    }
    check_roundtrip();
    check_keepalive();
}

phx::World W;
}  // namespace

void harness_run(uint64_t seed) {
    phx::quiet_logs();
    W.nvcpu = 1;
    W.add(0, [](int id) { work(id); });
    sim::extra_json("plan", "{\"messages\":4,\"fragmentations_per_message\":6}");
    sim::extra_json("nops", "0");
    sim::set_poison_property("out-of-bounds");
    sim::cfg.max_steps = 30000000;
    sim::set_budget_verdict("viol", "endless-loop");
    sim::start();
    W.deadline_ns = sim::now_ns() + 600000000000ULL;
    W.run();
    sim::probe("nontrivial");
    sim::finish("ok", "", "http framing");
}

// C08 — WorkPool: every task runs exactly once on a pool vCPU; call() returns after its task finished;
// async task objects are deleted exactly once after they ran; destroying the pool waits for accepted tasks.
#include "phx.h"
#include <photon/thread/workerpool.h>
#include <photon/photon.h>

using namespace photon;

namespace {

struct TaskRec {
    int id = 0, kind = 0;         // body: 0 compute, 1 photon yield, 2 photon sleep
    uint64_t us = 0;
    volatile int exec = 0, finished = 0, dtor = 0, running = 0;
    int submitter_task = -1, executor_task = -1;
    bool async = false;
};
std::vector<TaskRec> tasks;
int pool_vcpus, pool_mode; size_t ring_size;
WorkPool* WP = nullptr;
volatile bool pool_destroyed = false;

void body(TaskRec& t) {
    { sim::NoSched ns;
      if (pool_destroyed) HX_VIOL("after-destroy", "task %d started after ~WorkPool() had returned", t.id);
      if (t.exec++) HX_VIOL("ran-twice", "task %d executed %d times", t.id, t.exec);
      if (t.dtor) HX_VIOL("use-after-delete", "task %d runs after its task object was deleted", t.id);
      t.running = 1; t.executor_task = sim::task_id();
      if (t.executor_task == t.submitter_task) HX_VIOL("wrong-vcpu", "task %d ran on its submitter's OS thread, not on a vCPU of the pool", t.id);
      if (!photon::CURRENT) HX_VIOL("wrong-vcpu", "task %d ran outside a photon environment", t.id);
      sim::ev(0x7A5C, t.id, t.executor_task); sim::note("task %d starts on task-thread %d", t.id, t.executor_task); }
    if (t.kind == 1) { thread_yield(); if (sim::frnd(2)) thread_yield(); }
    else if (t.kind == 2) thread_usleep(t.us);
    else for (int i = (int)sim::frnd(4); i >= 0; i--) sim::yield_point();
    { sim::NoSched ns; t.running = 0; t.finished = 1; sim::ev(0x7A5D, t.id); sim::note("task %d finished", t.id); }
}

struct AsyncTask {
    TaskRec* t;
    uint64_t magic = 0xA5A5A5A5;
    explicit AsyncTask(TaskRec* t_) : t(t_) {}
    void operator()() { if (magic != 0xA5A5A5A5) HX_VIOL("use-after-delete", "async task object used after deletion"); body(*t); }
    ~AsyncTask() {
        sim::NoSched ns;
        if (magic != 0xA5A5A5A5) HX_VIOL("double-delete", "async task %d object deleted twice", t->id);
        if (!t->finished) HX_VIOL("deleted-before-run", "async task %d object deleted before its body finished (exec=%d)", t->id, t->exec);
        if (t->dtor++) HX_VIOL("double-delete", "async task %d object deleted twice", t->id);
        magic = 0xDEAD;
        sim::poison(this, sizeof(*this), "async task object after delete");
    }
    static void operator delete(void*) {}
};

struct Sub { int ctx; std::vector<int> ids; std::vector<uint64_t> gaps; bool photon; };   // ctx: 0 Photon/Std by kind, 1 Auto, 2 async
std::vector<Sub> subs;
phx::World W;
volatile int subs_done = 0;
bool pool_by_photon = false;
bool with_joiner = false;         // an extra vCPU joins the pool through join_current_vcpu_into_workpool()
int n_interrupts = 0;             // thread_interrupt()s sent to photon submitters (possibly while they are inside call())
volatile int joiner_in = 0;

void submit_all(Sub& s) {
    for (size_t i = 0; i < s.ids.size(); i++) {
        TaskRec& t = tasks[s.ids[i]];
        if (hx::dropped(t.id)) { sim::NoSched ns; t.exec = 1; t.finished = 1; t.dtor = t.async ? 1 : 0; continue; }
        if (s.gaps[i]) { if (s.photon) thread_usleep(s.gaps[i]); else sim::sleep_ns(s.gaps[i] * 1000); }
        { sim::NoSched ns; t.submitter_task = sim::task_id(); sim::ev(0x5B, t.id); sim::note("submit task %d ctx %d async %d", t.id, s.ctx, (int)t.async); }
        if (t.async) { WP->async_call(new AsyncTask(&t)); sim::probe("async_call"); continue; }
        auto fn = [&t] { body(t); };
        if (s.ctx == 1) WP->call<AutoContext>(fn);
        else if (s.photon) WP->call<PhotonContext>(fn);
        else WP->call<StdContext>(fn);
        sim::NoSched ns;
        if (!t.finished) HX_VIOL("call-returned-early", "call() of task %d returned before the task finished (exec=%d running=%d)", t.id, t.exec, t.running);
        sim::probe(s.photon ? "call_from_photon" : "call_from_os_thread");
    }
    sim::NoSched ns; subs_done++;
}

void make_pool() {
    WP = new WorkPool(pool_vcpus, photon::INIT_EVENT_NONE, photon::INIT_IO_NONE, pool_mode, ring_size);
    sim::NoSched ns;
    if (WP->get_vcpu_num() != pool_vcpus) HX_VIOL("pool", "get_vcpu_num()=%d, expected %d", WP->get_vcpu_num(), pool_vcpus);
}
void destroy_pool() {
    // a vCPU that joins the pool must have joined before the pool is destroyed (the joiner's own responsibility in real use)
    while (with_joiner && WP->get_vcpu_num() < pool_vcpus + 1) { if (photon::CURRENT) thread_usleep(100); else sim::sleep_ns(100000); }
    sim::note("destroying the pool");
    delete WP;
    sim::NoSched ns; pool_destroyed = true;
    for (auto& t : tasks) {
        if (t.exec != 1) HX_VIOL(t.exec ? "ran-twice" : "never-ran", "task %d was accepted by the pool but executed %d time(s) by the time ~WorkPool() returned", t.id, t.exec);
        if (!t.finished) HX_VIOL("destroy-did-not-wait", "~WorkPool() returned while task %d was still running", t.id);
        if (t.async && t.dtor != 1) HX_VIOL(t.dtor ? "double-delete" : "leak", "async task %d object deleted %d time(s)", t.id, t.dtor);
    }
}

}  // namespace

void harness_run(uint64_t seed) {
    phx::quiet_logs();
    pool_vcpus = 1 + sim::rnd(3);
    static const int MODES[] = {-1, 0, 4, -1, 0, 2};
    pool_mode = MODES[sim::rnd(6)];
    static const size_t RS[] = {1, 2, 4, 64};
    ring_size = RS[sim::rnd(4)];
    int nphoton = sim::rnd(3), nos = sim::rnd(3);
    if (nphoton + nos == 0) nos = 1;
    pool_by_photon = nphoton > 0 && sim::rnd(2);
    with_joiner = sim::rnd(3) == 0 && !hx::param("no_joiner", 0);
    n_interrupts = nphoton && sim::rnd(3) == 0 ? 1 + sim::rnd(6) : 0;
    int ntasks = 0;
    static const uint64_t GAP[] = {0, 0, 0, 10, 100, 1000};
    for (int i = 0; i < nphoton + nos; i++) {
        Sub s; s.photon = i < nphoton; s.ctx = sim::rnd(3);
        int n = 1 + sim::rnd(s.ctx == 2 ? 2 * (int)ring_size + 6 : 8);
        if (n > 24) n = 24;
        for (int k = 0; k < n; k++) {
            TaskRec t; t.id = ntasks++; t.kind = sim::rnd(3); t.us = GAP[2 + sim::rnd(4)]; t.async = s.ctx == 2 || sim::rnd(6) == 0;
            tasks.push_back(t); s.ids.push_back(t.id); s.gaps.push_back(GAP[sim::rnd(6)]);
        }
        subs.push_back(s);
    }
    char plan[300];
    snprintf(plan, sizeof plan, "{\"pool_vcpus\":%d,\"mode\":%d,\"ring_size\":%zu,\"photon_submitters\":%d,\"os_submitters\":%d,\"tasks\":%d,\"pool_owner\":\"%s\",\"joined_vcpu\":%d,\"interrupts\":%d}",
             pool_vcpus, pool_mode, ring_size, nphoton, nos, ntasks, pool_by_photon ? "photon thread" : "plain OS thread", (int)with_joiner, n_interrupts);
    sim::extra_json("plan", plan);
    char nb[32]; snprintf(nb, sizeof nb, "%d", ntasks); sim::extra_json("nops", nb);
    sim::set_poison_property("use-after-delete");
    sim::start();
    uint64_t deadline = sim::now_ns() + 20000000000ULL;
    if (!pool_by_photon) make_pool();
    // photon submitters live on one extra vCPU (the stub-like usage: a stub stays on one vCPU)
    W.nvcpu = nphoton ? 1 : 0;
    for (int i = 0; i < nphoton; i++) W.add(0, [i](int) { while (!WP) thread_usleep(50); submit_all(subs[i]); });
    if (pool_by_photon) {
        W.vcpu_pre = [](int) { make_pool(); };
        W.vcpu_end = [](int) { while (subs_done < (int)subs.size()) thread_usleep(200); destroy_pool(); };
    }
    if (nphoton && n_interrupts) {
        W.add(0, [nphoton](int) {
            for (int k = 0; k < n_interrupts; k++) {
                thread_usleep(sim::rnd(3) ? sim::rnd(200) : sim::rnd(3000));
                auto& r = W.threads[sim::rnd(nphoton)];
                if (!r.started || r.done || !r.th) continue;
                // an interrupt aimed at whatever the submitter is doing: it may cut a sleep short, it must not cut call() short
                thread_interrupt(r.th, EINTR);
                sim::fault_fired("interrupt_to_submitter");
            }
        });
    }
    W.deadline_ns = deadline;
    std::thread joiner;
    if (with_joiner) joiner = std::thread([] {
        while (!WP) sim::sleep_ns(50000);
        if (photon::init(photon::INIT_EVENT_NONE, photon::INIT_IO_NONE) < 0) sim::finish("error", "harness", "photon::init of the joining vCPU failed");
        { sim::NoSched ns; joiner_in = 1; }
        WP->join_current_vcpu_into_workpool();         // serves tasks until the pool is destroyed
        photon::fini();
        sim::probe("vcpu_joined_the_pool");
    });
    std::vector<std::thread> os;
    for (int i = nphoton; i < nphoton + nos; i++) os.emplace_back([i] { while (!WP) sim::sleep_ns(50000); submit_all(subs[i]); });
    volatile bool all_done = false;
    // the finisher joins everybody and destroys the pool; the coordinator only watches simulated time,
    // so a destructor that never returns is seen as well
    std::thread finisher([&] {
        if (W.nvcpu) W.run();
        for (auto& t : os) t.join();
        if (!pool_by_photon) destroy_pool();
        if (with_joiner) joiner.join();
        sim::NoSched ns; all_done = true;
    });
    for (;;) {
        bool fin; { sim::NoSched ns; fin = all_done; }
        if (fin) break;
        if (sim::now_ns() > deadline) {
            sim::NoSched ns; int nf = 0, ne = 0; for (auto& t : tasks) { nf += t.finished; ne += t.exec; }
            HX_VIOL("stuck", "still blocked at the sim deadline: %d of %zu submitters done, %d of %zu tasks executed, %d finished, pool %s (pool vcpus %d mode %d ring %zu)",
                    subs_done, subs.size(), ne, tasks.size(), nf, subs_done == (int)subs.size() ? "being destroyed" : "alive", pool_vcpus, pool_mode, ring_size);
        }
        sim::sleep_ns(2000000);
    }
    finisher.join();
    sim::probe("nontrivial");
    sim::finish("ok", "", "workpool vcpus=%d mode=%d ring=%zu tasks=%zu", pool_vcpus, pool_mode, ring_size, tasks.size());
}
